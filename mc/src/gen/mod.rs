pub mod programs;
