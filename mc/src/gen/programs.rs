//! Enumerators of structured programs (ASTs) for the assembler checks.

use crate::refmodel::asm::*;

pub struct PCase {
    pub space: &'static str,
    pub prog: Program,
    pub stack: bool,
}

fn one(space: &'static str, stmt: Stmt, out: &mut Vec<PCase>) {
    let stack = matches!(stmt, Stmt::Push(_) | Stmt::Pop(_) | Stmt::Call(_) | Stmt::Rets);
    out.push(PCase { space, prog: Program::of(vec![stmt]), stack });
}

/// Word values for a signed field of `bits` bits: every in-range value.
fn signed_values(bits: u32) -> Vec<u16> {
    let lo = -(1i32 << (bits - 1));
    let hi = (1i32 << (bits - 1)) - 1;
    (lo..=hi).map(|v| v as u16).collect()
}

/// E1: single statements, every operand value of every form.
/// `full` adds every spelling for every value (otherwise spellings are applied on a register subset).
pub fn e1_single_statements(full: bool) -> Vec<PCase> {
    let mut out = Vec::new();
    let regs: Vec<u8> = (0..8).collect();
    // ADD / AND register form: all 8^3
    for d in &regs {
        for a in &regs {
            for b in &regs {
                one("E1/add-reg", Stmt::Add(*d, *a, Src2::Reg(*b)), &mut out);
                one("E1/and-reg", Stmt::And(*d, *a, Src2::Reg(*b)), &mut out);
            }
        }
    }
    // ADD / AND immediate: all regs x all imm5 in decimal; all spellings on (d,a) in a subset
    for d in &regs {
        for a in &regs {
            for w in signed_values(5) {
                let spell = if full || (*d == 5 && *a == 2) || (*d == *a) { Lit::spellings(w) } else { vec![Lit::dec(w as i16 as i32)] };
                for l in spell {
                    one("E1/add-imm", Stmt::Add(*d, *a, Src2::Imm(l.clone())), &mut out);
                    one("E1/and-imm", Stmt::And(*d, *a, Src2::Imm(l)), &mut out);
                }
            }
        }
    }
    for d in &regs {
        for a in &regs {
            one("E1/not", Stmt::Not(*d, *a), &mut out);
        }
        one("E1/jmp", Stmt::Jmp(*d), &mut out);
        one("E1/jsrr", Stmt::Jsrr(*d), &mut out);
        one("E1/push", Stmt::Push(*d), &mut out);
        one("E1/pop", Stmt::Pop(*d), &mut out);
    }
    one("E1/ret", Stmt::Ret, &mut out);
    one("E1/rti", Stmt::Rti, &mut out);
    one("E1/rets", Stmt::Rets, &mut out);
    // LDR / STR: all regs x all offsets (decimal), all spellings on a subset
    for d in &regs {
        for b in &regs {
            for w in signed_values(6) {
                let spell = if full || (*d == 1 && *b == 2) || (*d == 7 && *b == 7) { Lit::spellings(w) } else { vec![Lit::dec(w as i16 as i32)] };
                for l in spell {
                    one("E1/ldr", Stmt::Ldr(*d, *b, l.clone()), &mut out);
                    one("E1/str", Stmt::Str(*d, *b, l), &mut out);
                }
            }
        }
    }
    // PC-relative with literal offsets
    for k in [PcRel::Ld, PcRel::Ldi, PcRel::Lea, PcRel::St, PcRel::Sti] {
        for r in &regs {
            for w in signed_values(9) {
                let spell = if full || *r == 3 { Lit::spellings(w) } else { vec![Lit::dec(w as i16 as i32)] };
                for l in spell {
                    one("E1/pcrel9-lit", Stmt::Mem(k, *r, Target::Lit(l)), &mut out);
                }
            }
        }
    }
    for (nzp, m) in BR_MNEMONICS {
        for w in signed_values(9) {
            let spell = if full || m == "brz" { Lit::spellings(w) } else { vec![Lit::dec(w as i16 as i32)] };
            for l in spell {
                one("E1/br-lit", Stmt::Br(nzp, m.to_string(), Target::Lit(l)), &mut out);
            }
        }
    }
    for w in signed_values(11) {
        for l in Lit::spellings(w) {
            one("E1/jsr-lit", Stmt::Jsr(Target::Lit(l)), &mut out);
        }
    }
    // CALL takes a label only (README: "usage: call label"), so it has no literal form
    for v in 0..=255u16 {
        for l in Lit::spellings(v) {
            one("E1/trap", Stmt::Trap(l), &mut out);
        }
    }
    for (v, m) in NAMED_TRAPS {
        one("E1/named-trap", Stmt::Named(v, m), &mut out);
    }
    // .fill: all 65536 words in decimal and hex; every spelling on a stride
    for w in 0..=0xFFFFu16 {
        one("E1/fill", Stmt::Fill(Lit::dec(w as i32)), &mut out);
        one("E1/fill", Stmt::Fill(Lit::hex(w)), &mut out);
        if full || w % 257 == 0 || w >= 0xFFF0 || (0x7FF8..=0x8008).contains(&w) {
            for l in Lit::spellings(w).into_iter().skip(2) {
                one("E1/fill", Stmt::Fill(l), &mut out);
            }
        }
    }
    for n in 0..=4u16 {
        one("E1/blkw", Stmt::Blkw(Lit::dec(n as i32)), &mut out);
        one("E1/blkw", Stmt::Blkw(Lit::hex(n)), &mut out);
    }
    for s in STRINGS {
        one("E1/stringz", Stmt::Stringz(s.to_string()), &mut out);
    }
    out
}

/// Strings for `.stringz`: every documented escape, an unknown escape, punctuation that is
/// white space elsewhere, a 2-byte and a 3-byte (BMP) character, the empty string.
pub const STRINGS: [&str; 17] = [
    "",
    "a",
    "ab",
    "Hello, world!",
    "a\\nb",
    "\\t\\r\\\\",
    "say \\\"hi\\\"",
    "\\q",
    "a;b,c:d",
    "é",
    "→x",
    "x R1 #5 .fill",
    "éa",
    "aé",
    "éé",
    "a→b→",
    "é\\n→",
];

#[derive(Debug, Clone, Copy, PartialEq, Eq, Hash)]
pub enum RefKind {
    Br,
    Ld,
    Ldi,
    Lea,
    St,
    Sti,
    Jsr,
    Call,
}

pub const REF_KINDS: [RefKind; 8] = [RefKind::Br, RefKind::Ld, RefKind::Ldi, RefKind::Lea, RefKind::St, RefKind::Sti, RefKind::Jsr, RefKind::Call];

impl RefKind {
    pub fn bits(self) -> u32 {
        match self {
            RefKind::Jsr => 11,
            RefKind::Call => 10,
            _ => 9,
        }
    }
    pub fn stmt(self, label: &str, variant: usize) -> Stmt {
        let t = Target::Label(label.to_string());
        let r = (variant % 8) as u8;
        match self {
            RefKind::Br => {
                let (nzp, m) = BR_MNEMONICS[variant % 8];
                Stmt::Br(nzp, m.to_string(), t)
            }
            RefKind::Ld => Stmt::Mem(PcRel::Ld, r, t),
            RefKind::Ldi => Stmt::Mem(PcRel::Ldi, r, t),
            RefKind::Lea => Stmt::Mem(PcRel::Lea, r, t),
            RefKind::St => Stmt::Mem(PcRel::St, r, t),
            RefKind::Sti => Stmt::Mem(PcRel::Sti, r, t),
            RefKind::Jsr => Stmt::Jsr(t),
            RefKind::Call => Stmt::Call(t),
        }
    }
    pub fn name(self) -> &'static str {
        match self {
            RefKind::Br => "br",
            RefKind::Ld => "ld",
            RefKind::Ldi => "ldi",
            RefKind::Lea => "lea",
            RefKind::St => "st",
            RefKind::Sti => "sti",
            RefKind::Jsr => "jsr",
            RefKind::Call => "call",
        }
    }
}

/// The four filler statements of E2: 1 word instruction, .fill, .blkw 2, .stringz "ab" (3 words)
pub fn filler(kind: usize) -> Stmt {
    match kind {
        0 => Stmt::Add(1, 2, Src2::Reg(3)),
        1 => Stmt::Fill(Lit::hex(0xBEEF)),
        2 => Stmt::Blkw(Lit::dec(2)),
        _ => Stmt::Stringz("ab".to_string()),
    }
}

/// E2: label placement. Programs of `n` statements: one reference of every kind at every position
/// `i`, its label on every position `j` (including `j == i`), every combination of fillers elsewhere.
pub fn e2_single_reference(n: usize) -> Vec<PCase> {
    let mut out = Vec::new();
    let combos = 4usize.pow((n - 1) as u32);
    for kind in REF_KINDS {
        for i in 0..n {
            for j in 0..n {
                for combo in 0..combos {
                    let mut prog = Program::default();
                    let mut c = combo;
                    for pos in 0..n {
                        let label = if pos == j { Some("tgt") } else { None };
                        let stmt = if pos == i {
                            kind.stmt("tgt", i + j + combo)
                        } else {
                            let f = filler(c % 4);
                            c /= 4;
                            f
                        };
                        prog.push(label, stmt);
                    }
                    out.push(PCase { space: "E2/one-ref", prog, stack: kind == RefKind::Call });
                }
            }
        }
    }
    out
}

/// E2b: two simultaneous references (any kinds, any positions, labels anywhere, possibly the same
/// label), fillers elsewhere.
pub fn e2_two_references(n: usize) -> Vec<PCase> {
    let mut out = Vec::new();
    if n < 2 {
        return out;
    }
    let combos = 4usize.pow((n - 2) as u32);
    for k1 in REF_KINDS {
        for k2 in REF_KINDS {
            for i1 in 0..n {
                for i2 in (i1 + 1)..n {
                    for j1 in 0..n {
                        for j2 in 0..n {
                            for combo in 0..combos {
                                let mut prog = Program::default();
                                let mut c = combo;
                                // label names: "la" on j1, "lb" on j2; when j1 == j2 both refs use "la"
                                let name2 = if j1 == j2 { "la" } else { "lb" };
                                for pos in 0..n {
                                    let label = if pos == j1 {
                                        Some("la")
                                    } else if pos == j2 {
                                        Some("lb")
                                    } else {
                                        None
                                    };
                                    let stmt = if pos == i1 {
                                        k1.stmt("la", pos + combo)
                                    } else if pos == i2 {
                                        k2.stmt(name2, pos + combo + 3)
                                    } else {
                                        let f = filler(c % 4);
                                        c /= 4;
                                        f
                                    };
                                    prog.push(label, stmt);
                                }
                                out.push(PCase { space: "E2/two-refs", prog, stack: k1 == RefKind::Call || k2 == RefKind::Call });
                            }
                        }
                    }
                }
            }
        }
    }
    out
}

/// A program whose only reference has label distance `offset` (target - (ref address + 1)),
/// built with `.blkw` padding. Offsets whose padding would not fit are skipped by the caller.
pub fn far_label(kind: RefKind, offset: i64) -> Option<Program> {
    let mut p = Program::default();
    if offset >= 0 {
        // ref at 0, label at 1 + offset
        if offset > 0xFFF0 {
            return None;
        }
        p.push(None, kind.stmt("far", 1));
        let mut pad = offset;
        while pad > 0 {
            let chunk = pad.min(0x7FFF);
            p.push(None, Stmt::Blkw(Lit::hex(chunk as u16)));
            pad -= chunk;
        }
        p.push(Some("far"), Stmt::Named(0x25, "halt"));
    } else {
        // label at 0; ref at address a: offset = 0 - (a + 1) => a = -offset - 1
        let a = -offset - 1;
        if a > 0xFFF0 {
            return None;
        }
        if a == 0 {
            p.push(Some("far"), kind.stmt("far", 2));
            return Some(p);
        }
        p.push(Some("far"), Stmt::Named(0x25, "halt"));
        let mut pad = a - 1;
        while pad > 0 {
            let chunk = pad.min(0x7FFF);
            p.push(None, Stmt::Blkw(Lit::hex(chunk as u16)));
            pad -= chunk;
        }
        p.push(None, kind.stmt("far", 2));
    }
    Some(p)
}

/// Seed programs covering every statement kind, for the layout product (E5) and as a corpus.
pub fn seeds() -> Vec<(Program, bool)> {
    let mut v: Vec<(Program, bool)> = Vec::new();
    let lbl = |s: &str| Target::Label(s.to_string());
    // 0: hello world shape
    let mut p = Program::default();
    p.push(None, Stmt::Mem(PcRel::Lea, 0, lbl("hw")));
    p.push(None, Stmt::Named(0x22, "puts"));
    p.push(None, Stmt::Named(0x25, "halt"));
    p.push(Some("hw"), Stmt::Stringz("Hello, world!".into()));
    v.push((p, false));
    // 1: counted loop with backward branch
    let mut p = Program::default();
    p.push(None, Stmt::And(1, 1, Src2::Imm(Lit::dec(0))));
    p.push(None, Stmt::Add(1, 1, Src2::Imm(Lit::dec(3))));
    p.push(Some("loop"), Stmt::Add(1, 1, Src2::Imm(Lit::dec(-1))));
    p.push(None, Stmt::Br(0b001, "brp".into(), lbl("loop")));
    p.push(None, Stmt::Named(0x25, "halt"));
    v.push((p, false));
    // 2: every PC-relative kind, data after code, origin
    let mut p = Program::default();
    p.items.push(Item::Orig(Lit::hex(0x4000)));
    p.push(Some("start"), Stmt::Mem(PcRel::Ld, 1, lbl("data")));
    p.push(None, Stmt::Mem(PcRel::Ldi, 2, lbl("ptr")));
    p.push(None, Stmt::Mem(PcRel::St, 1, lbl("buf")));
    p.push(None, Stmt::Mem(PcRel::Sti, 2, lbl("ptr")));
    p.push(None, Stmt::Mem(PcRel::Lea, 3, lbl("start")));
    p.push(None, Stmt::Jsr(lbl("sub")));
    p.push(None, Stmt::Named(0x25, "halt"));
    p.push(Some("sub"), Stmt::Not(4, 3));
    p.push(None, Stmt::Ret);
    p.push(Some("data"), Stmt::Fill(Lit::hex(0x1234)));
    p.push(Some("ptr"), Stmt::Fill(Lit::hex(0x4010)));
    p.push(Some("buf"), Stmt::Blkw(Lit::dec(3)));
    v.push((p, false));
    // 3: register forms and LDR/STR with negative offsets
    let mut p = Program::default();
    p.push(None, Stmt::Ldr(1, 2, Lit::dec(-1)));
    p.push(None, Stmt::Str(3, 4, Lit::dec(-32)));
    p.push(None, Stmt::Ldr(5, 6, Lit::dec(31)));
    p.push(None, Stmt::Jmp(2));
    p.push(None, Stmt::Jsrr(3));
    p.push(None, Stmt::Rti);
    p.push(None, Stmt::Trap(Lit::hex(0x21)));
    p.push(None, Stmt::Named(0x20, "getc"));
    p.push(None, Stmt::Named(0x21, "out"));
    p.push(None, Stmt::Named(0x23, "in"));
    p.push(None, Stmt::Named(0x24, "putsp"));
    p.push(None, Stmt::Named(0x26, "putn"));
    p.push(None, Stmt::Named(0x27, "reg"));
    v.push((p, false));
    // 4: stack extension
    let mut p = Program::default();
    p.push(Some("main"), Stmt::Call(lbl("f")));
    p.push(None, Stmt::Named(0x25, "halt"));
    p.push(Some("f"), Stmt::Push(1));
    p.push(None, Stmt::Pop(2));
    p.push(None, Stmt::Rets);
    v.push((p, true));
    // 5: breakpoints and origin in the middle
    let mut p = Program::default();
    p.items.push(Item::Break);
    p.push(Some("a"), Stmt::Add(0, 0, Src2::Reg(0)));
    p.items.push(Item::Orig(Lit::hex(0x3100)));
    p.items.push(Item::Break);
    p.push(None, Stmt::Br(0b111, "br".into(), lbl("a")));
    p.items.push(Item::Break);
    v.push((p, false));
    // 6: strings with escapes, label use before definition, labels that look like keywords prefixes
    let mut p = Program::default();
    p.push(None, Stmt::Mem(PcRel::Lea, 0, lbl("brx")));
    p.push(None, Stmt::Br(0b010, "brz".into(), lbl("adder")));
    p.push(Some("adder"), Stmt::Stringz("a\\n\\\"q\\\"".into()));
    p.push(Some("brx"), Stmt::Stringz("é".into()));
    p.push(Some("x_1"), Stmt::Fill(Lit::dec(-1)));
    p.push(Some("_u"), Stmt::Fill(Lit::dec(65535)));
    p.push(Some("9lives"), Stmt::Fill(Lit::hex(0xFFFF)));
    v.push((p, false));
    // 7: empty program
    v.push((Program::default(), false));
    // 8: only data
    let mut p = Program::default();
    p.push(None, Stmt::Blkw(Lit::dec(0)));
    p.push(Some("z"), Stmt::Fill(Lit::dec(0)));
    p.push(None, Stmt::Blkw(Lit::hex(2)));
    v.push((p, false));
    // 9: literal PC offsets next to labels
    let mut p = Program::default();
    p.push(Some("top"), Stmt::Br(0b111, "brnzp".into(), Target::Lit(Lit::dec(-1))));
    p.push(None, Stmt::Mem(PcRel::Ld, 7, Target::Lit(Lit::hex(0x0F))));
    p.push(None, Stmt::Jsr(Target::Lit(Lit::dec(-1024))));
    p.push(None, Stmt::Mem(PcRel::St, 0, lbl("top")));
    v.push((p, false));
    // 10: labels in front of `.break` and `.orig` (they name the next statement's address), a label
    // after the last statement
    let mut p = Program::default();
    p.items.push(Item::LOrig("base".into(), Lit::hex(0x3200)));
    p.push(None, Stmt::Mem(PcRel::Lea, 0, lbl("stop")));
    p.items.push(Item::LBreak("stop".into()));
    p.push(Some("again"), Stmt::Add(1, 1, Src2::Imm(Lit::dec(1))));
    p.push(None, Stmt::Br(0b010, "brz".into(), lbl("base")));
    p.push(None, Stmt::Mem(PcRel::Ld, 2, lbl("tail")));
    p.push(None, Stmt::Named(0x25, "halt"));
    p.items.push(Item::LBreak("tail".into()));
    v.push((p, false));
    v
}

/// Candidate label spellings around the lexer's other token classes, with the documented verdict:
/// a label is a word of [A-Za-z0-9_] that is not a mnemonic / trap name (any case), not a register
/// `r0`..`r7`, and not a hex literal (`x`/`X`/`0x`/`0X` followed by hex digits).
pub fn label_names() -> Vec<&'static str> {
    vec![
        "a", "Z", "_", "__", "a1", "A_b_9", "loop", "LOOP", "Loop", "l00p", "x", "X", "xg", "x_1", "X_S", "xhalt", "Xout", "xin", "xret", "xnot", "xbr", "xld", "xreg", "xputs", "xtrap",
        "xyz", "xz1", "x1g", "0xg", "0xhalt", "0Xret", "r8", "r9", "R8", "r10", "r77", "r0a", "R7_", "rx", "r", "R", "adds", "addx", "add1", "_add", "andy", "brx", "brnzpx", "brn1", "jmpr", "jsrrr",
        "ldx", "ldrr", "leaf", "nott", "rett", "rtis", "stx", "strs", "halts", "halt1", "traps", "getch", "outs", "puts1", "ins", "inn", "putspp", "putn_", "regs", "reg0",
        "9lives", "0abc", "1", "00", "123", "pushx", "popp", "calls", "retss", "end", "orig", "fill", "blkw", "stringz", "break_",
    ]
}
