//! Small helpers: hashing, mixed-radix odometers.

pub fn hash_bytes(mut h: u64, bytes: &[u8]) -> u64 {
    // FNV-1a over bytes, then a final avalanche; stable across runs and platforms
    for b in bytes {
        h ^= *b as u64;
        h = h.wrapping_mul(0x100000001b3);
    }
    h
}

pub fn hash_str(s: &str) -> u64 {
    mix(hash_bytes(0xcbf29ce484222325, s.as_bytes()))
}

pub fn mix(mut x: u64) -> u64 {
    x ^= x >> 33;
    x = x.wrapping_mul(0xff51afd7ed558ccd);
    x ^= x >> 33;
    x = x.wrapping_mul(0xc4ceb9fe1a85ec53);
    x ^= x >> 33;
    x
}

/// Fast hash of a word slice (used for the 64K-word memory).
pub fn hash_words(words: &[u16]) -> u64 {
    let mut h: u64 = 0x9e3779b97f4a7c15;
    let mut chunks = words.chunks_exact(4);
    for c in &mut chunks {
        let v = (c[0] as u64) | ((c[1] as u64) << 16) | ((c[2] as u64) << 32) | ((c[3] as u64) << 48);
        h = (h ^ v).wrapping_mul(0x2127599bf4325c37);
        h ^= h >> 29;
    }
    for w in chunks.remainder() {
        h = (h ^ *w as u64).wrapping_mul(0x2127599bf4325c37);
    }
    mix(h)
}

/// Decompose `index` into mixed-radix digits (least significant first).
pub fn digits(mut index: usize, radices: &[usize]) -> Vec<usize> {
    let mut out = Vec::with_capacity(radices.len());
    for r in radices {
        out.push(index % r);
        index /= r;
    }
    out
}

pub fn product(radices: &[usize]) -> usize {
    radices.iter().product()
}

/// All sequences over `0..k` of length exactly `len`, as index -> digits.
pub fn seq(index: usize, k: usize, len: usize) -> Vec<usize> {
    let mut out = vec![0; len];
    let mut i = index;
    for slot in out.iter_mut().rev() {
        *slot = i % k;
        i /= k;
    }
    out
}

pub fn pow(k: usize, len: usize) -> usize {
    k.pow(len as u32)
}

pub fn hex(w: u16) -> String {
    format!("x{w:04X}")
}
