#![allow(dead_code)]
//! lacemc: bounded-exhaustive / explicit-state checks of rozukke/lace against reference models.
//! See /verif/DESIGN.md.

mod bfs;
mod checks;
mod cli;
mod gen;
mod isolate;
mod refmodel;
mod report;
mod session;
mod util;

use report::{Ctx, Tier};
use std::os::fd::{AsRawFd, FromRawFd};
use std::path::PathBuf;
use std::time::Instant;

fn usage() -> ! {
    eprintln!("usage: lacemc check <ID> [quick|thorough] | lacemc selftest | lacemc replay <file>");
    std::process::exit(2);
}

fn main() {
    let args: Vec<String> = std::env::args().collect();
    if args.len() < 2 {
        usage();
    }
    let verif_dir = PathBuf::from(std::env::var("VERIF_DIR").unwrap_or_else(|_| "/verif".into()));
    let lace_bin = std::env::var("LACE_BIN").map(PathBuf::from).unwrap_or_else(|_| verif_dir.join("target/lacebin/release/lace"));
    let seed: u64 = std::env::var("VERIF_SEED")
        .ok()
        .and_then(|s| s.parse().ok())
        .unwrap_or(0);

    // Keep the real stdout for verdict lines; everything lace prints goes to /dev/null.
    let out_fd = unsafe { libc::dup(1) };
    let out = unsafe { std::fs::File::from_raw_fd(out_fd) };
    isolate::REPORT_FD.store(out_fd as isize, std::sync::atomic::Ordering::Relaxed);
    let devnull_r = std::fs::File::open("/dev/null").unwrap();
    let keep_stderr = std::env::var("LACEMC_KEEP_STDERR").is_ok();
    unsafe {
        let devnull_w = libc::open(b"/dev/null\0".as_ptr() as *const libc::c_char, libc::O_WRONLY);
        libc::dup2(devnull_r.as_raw_fd(), 0);
        libc::dup2(devnull_w, 1);
        if !keep_stderr {
            libc::dup2(devnull_w, 2);
        }
    }
    // The VM's 128 KB memory images would otherwise be mmap()ed and munmap()ed on every session,
    // which serialises all workers on the process's address-space lock.
    unsafe {
        libc::mallopt(libc::M_MMAP_THRESHOLD, 1 << 30);
        libc::mallopt(libc::M_TRIM_THRESHOLD, 1 << 30);
        libc::mallopt(libc::M_ARENA_MAX, 64);
    }
    std::env::set_var("NO_COLOR", "1");
    isolate::install_panic_hook();
    let _ = miette::set_hook(Box::new(|_| {
        Box::new(
            miette::MietteHandlerOpts::new()
                .context_lines(lace::DIAGNOSTIC_CONTEXT_LINES)
                .build(),
        )
    }));

    match args[1].as_str() {
        "check" => {
            if args.len() < 3 {
                usage();
            }
            let tier = match args.get(3).map(|s| s.as_str()).or(std::env::var("VERIF_TIER").ok().as_deref()) {
                Some("thorough") => {
                    // deep levels legitimately build large accumulators in the workers
                    isolate::HEADROOM_GIB.store(12, std::sync::atomic::Ordering::Relaxed);
                    Tier::Thorough
                }
                _ => Tier::Quick,
            };
            let scratch = verif_dir.join("target/scratch").join(format!("{}-{}", args[2], std::process::id()));
            let _ = std::fs::remove_dir_all(&scratch);
            std::fs::create_dir_all(&scratch).expect("scratch dir");
            std::env::set_var("LACEMC_SCRATCH", &scratch);
            let ctx = Ctx {
                property: args[2].clone(),
                tier,
                seed,
                verif_dir,
                lace_bin,
                scratch: scratch.clone(),
                start: Instant::now(),
                out,
            };
            let code = checks::run(&ctx);
            let _ = std::fs::remove_dir_all(&scratch);
            std::process::exit(code);
        }
        "selftest" => {
            let ctx = Ctx {
                property: "selftest".into(),
                tier: Tier::Quick,
                seed,
                verif_dir: verif_dir.clone(),
                lace_bin,
                scratch: verif_dir.join("target/scratch/selftest"),
                start: Instant::now(),
                out,
            };
            std::process::exit(refmodel::selftest::run(&ctx));
        }
        "replay" => {
            if args.len() < 3 {
                usage();
            }
            let scratch = verif_dir.join("target/scratch").join(format!("replay-{}", std::process::id()));
            std::fs::create_dir_all(&scratch).expect("scratch dir");
            let ctx = Ctx {
                property: "replay".into(),
                tier: Tier::Quick,
                seed,
                verif_dir,
                lace_bin,
                scratch: scratch.clone(),
                start: Instant::now(),
                out,
            };
            let code = checks::replay(&ctx, &PathBuf::from(&args[2]));
            let _ = std::fs::remove_dir_all(&scratch);
            std::process::exit(code);
        }
        _ => usage(),
    }
}
