//! C18 — the stack extension is gated by its feature flag, and only it.

use super::asmcommon::{case_json, compare, Verdict};
use super::c03::{judge_image, templates};
use crate::cli::{be_bytes, program_output, Lace};
use crate::gen::programs::{e1_single_statements, e2_single_reference, seeds};
use crate::isolate::{confirm_fresh, pooled, Env};
use crate::refmodel::asm::*;
use crate::refmodel::vm::{self, Io, Machine, RunEnd};
use crate::report::{finish, Acc, Ctx, Level};
use serde_json::{json, Value};

struct Cli {
    name: String,
    /// Some(text) = .asm source, None = raw image
    text: Option<String>,
    image: Option<Vec<u16>>,
    /// what must happen without the flag / with it
    uses_ext: &'static str, // "mnemonic" | "raw-word" | "none"
}

pub fn run(ctx: &Ctx) -> i32 {
    let lace = Lace::new(&ctx.lace_bin, &ctx.scratch);
    let mut cases: Vec<Cli> = Vec::new();
    // the four mnemonics as instruction, in three letter cases, and in label position
    for (m, operand) in [("push", " r1"), ("pop", " r2"), ("call", " f"), ("rets", "")] {
        for spelled in [m.to_string(), m.to_uppercase(), m.chars().enumerate().map(|(i, c)| if i % 2 == 1 { c.to_ascii_uppercase() } else { c }).collect()] {
            let text = if m == "call" { format!("{spelled}{operand}\nhalt\nf rets\n") } else if m == "rets" { format!("call g\nhalt\ng {spelled}\n").replace("call g", if spelled == "rets" { "call g" } else { "call g" }) } else { format!("add r1 r1 #5\n{spelled}{operand}\nhalt\n") };
            cases.push(Cli { name: format!("instr-{spelled}"), text: Some(text), image: None, uses_ext: "mnemonic" });
            // a comment directly behind the mnemonic or its label operand (no white space)
            if m == "call" {
                cases.push(Cli { name: format!("instr-comment-glued-{spelled}"), text: Some(format!("{spelled} f;c\nhalt;c\nf rets;c\n")), image: None, uses_ext: "mnemonic" });
            } else if m == "rets" {
                cases.push(Cli { name: format!("instr-comment-glued-{spelled}"), text: Some(format!("call g\nlea r0 msg\nputs\nhalt\ng add r1 r1 #1\n{spelled};c\nmsg .stringz \"back\"\n")), image: None, uses_ext: "mnemonic" });
                // the only extension mnemonic of the source
                cases.push(Cli { name: format!("instr-comment-glued-only-{spelled}"), text: Some(format!("add r1 r1 #1\n{spelled};c\n.fill x0\n")), image: None, uses_ext: "mnemonic" });
            }
            cases.push(Cli { name: format!("label-{spelled}"), text: Some(format!("{spelled} add r0 r0 r0\nhalt\n")), image: None, uses_ext: "mnemonic-as-label" });
            cases.push(Cli { name: format!("operand-{spelled}"), text: Some(format!("br {spelled}\nhalt\n")), image: None, uses_ext: "mnemonic-as-label" });
            // with the label colon attached, on the statement's line and on a line of its own
            cases.push(Cli { name: format!("label-colon-{spelled}"), text: Some(format!("{spelled}: add r0 r0 r0\nhalt\n")), image: None, uses_ext: "mnemonic-as-label" });
            cases.push(Cli { name: format!("label-colon-own-line-{spelled}"), text: Some(format!("{spelled}:\n    add r0 r0 r0\n    br {spelled}\nhalt\n")), image: None, uses_ext: "mnemonic-as-label" });
            cases.push(Cli { name: format!("operand-colon-{spelled}"), text: Some(format!("brnzp {spelled}:\nhalt\n")), image: None, uses_ext: "mnemonic-as-label" });
            cases.push(Cli { name: format!("label-comma-{spelled}"), text: Some(format!("{spelled}, add r0 r0 r0\nhalt\n")), image: None, uses_ext: "mnemonic-as-label" });
            // a label that merely contains the mnemonic after a hex-looking prefix is an ordinary label
            for prefix in ["x", "X", "0x"] {
                cases.push(Cli { name: format!("label-{prefix}{spelled}"), text: Some(format!("lea r0 {prefix}{spelled}\n{prefix}{spelled} halt\n")), image: None, uses_ext: "none" });
            }
        }
    }
    // raw xD words of all four sub-kinds reached at run time: via .fill in a source and as .lc3 images
    for (kind, w) in [("push", 0xD440u16), ("pop", 0xD080), ("call", 0xDC01), ("rets", 0xD800), ("push-r7", 0xD5C0), ("call-neg", 0xDFFF)] {
        cases.push(Cli { name: format!("fill-{kind}"), text: Some(format!("add r1 r1 #3\n.fill x{w:04X}\nhalt\nhalt\n")), image: None, uses_ext: "raw-word" });
        cases.push(Cli { name: format!("image-{kind}"), text: None, image: Some(vec![0x3000, 0x1263, w, 0xF025, 0xF025]), uses_ext: "raw-word" });
        // the word is present but never executed
        cases.push(Cli { name: format!("unreached-{kind}"), text: Some(format!("add r1 r1 #3\nhalt\n.fill x{w:04X}\n")), image: None, uses_ext: "none" });
    }
    // an xD word that is not in the image: the program doubles half of it and stores it ahead
    for (kind, w) in [("push", 0xD440u16), ("pop", 0xD080), ("call", 0xDC00), ("rets", 0xD800)] {
        let half = w / 2;
        cases.push(Cli { name: format!("synthesised-{kind}"), text: Some(format!("ld r0 half\nadd r0 r0 r0\nst r0 slot\nslot .fill x0000\nhalt\nhalt\nhalf .fill x{half:04X}\n")), image: None, uses_ext: "raw-word" });
        cases.push(Cli { name: format!("synthesised-image-{kind}"), text: None, image: Some(vec![0x3000, 0x2005, 0x1000, 0x3001, 0x0000, 0xF025, 0xF025, half]), uses_ext: "raw-word" });
    }
    for (i, (p, stack)) in seeds().into_iter().enumerate() {
        if !stack {
            cases.push(Cli { name: format!("seed{i}"), text: Some(print_plain(&p)), image: None, uses_ext: "none" });
        }
    }
    // the list syntax of the flag value (features.rs): empty entries are skipped, so `,stack`,
    // `stack,` and `,,stack` all switch the extension on and `,` switches nothing on
    // index 8: the flag at BOTH levels (before and after the sub-command): still just "on"
    let flags: [&[&str]; 9] = [&[], &["-f", "stack"], &["--features", "stack"], &["--features="], &["-f", ",stack"], &["--features=stack,"], &["-f", ",,stack"], &["-f", ","], &["-f", "stack"]];
    let parts = pooled(None, cases.len() * flags.len(), 1, Acc::new, |acc, k| {
        let c = &cases[k / flags.len()];
        let fi = k % flags.len();
        let flag = flags[fi];
        let on = matches!(fi, 1 | 2 | 4 | 5 | 6 | 8);
        let pre: &[&str] = if fi == 8 { &["-f", "stack"] } else { &[] };
        acc.eval("cli");
        let case = json!({"cli": true, "name": c.name, "source": c.text, "image": c.image, "flag": flag});
        let base = format!("k{k}");
        let (runfile, compile_status, compiled): (String, Option<i32>, Option<Vec<u8>>) = match &c.text {
            Some(t) => {
                lace.write(&format!("{base}.asm"), t.as_bytes());
                let src = format!("{base}.asm");
                let dst = format!("{base}.lc3");
                let mut a: Vec<&str> = pre.to_vec();
                a.extend(["compile", src.as_str(), dst.as_str()]);
                a.extend(flag);
                let r = lace.run(&a, b"");
                if r.class() == "crash" {
                    acc.violation(format!("C18/compile-crash/{}", c.uses_ext), format!("compile of {} crashed", c.name), case);
                    return;
                }
                // the diagnostic must name the feature
                if !on && c.uses_ext.starts_with("mnemonic") {
                    if r.status == 0 {
                        acc.violation(format!("C18/assembles-without-flag/{}", c.uses_ext), format!("{} assembled although the stack feature is off", c.name), case);
                        return;
                    }
                    if !r.err().contains("stack") {
                        acc.violation("C18/diagnostic-does-not-name-feature", format!("diagnostic for {} does not name the feature: {}", c.name, r.err().lines().take(3).collect::<Vec<_>>().join(" | ")), case);
                        return;
                    }
                }
                (src, Some(r.status), std::fs::read(lace.cwd.join(&dst)).ok())
            }
            None => {
                lace.write(&format!("{base}.lc3"), &be_bytes(c.image.as_ref().unwrap()));
                (format!("{base}.lc3"), None, None)
            }
        };
        let mut a: Vec<&str> = pre.to_vec();
        a.extend(["run", runfile.as_str(), "--minimal"]);
        a.extend(flag);
        let r = lace.run(&a, b"");
        // the other ways of running the same file must behave like `run`: the bare-path form,
        // and (for sources) the debugger detached at once
        {
            let mut b = vec![runfile.as_str(), "--minimal"];
            b.extend(flag);
            // (with the flag at both levels there is no bare form: it has one level only)
            let bare = if fi == 8 { r.clone() } else { lace.run(&b, b"") };
            if bare.status != r.status || program_output(&bare.out()) != program_output(&r.out()) {
                acc.violation(format!("C18/bare-path-differs-from-run/{}/{}", c.uses_ext, if on { "on" } else { "off" }), format!("`lace {} {:?}` exits {} but `lace run` exits {}", c.name, flag, bare.status, r.status), case.clone());
            }
            if c.text.is_some() {
                let mut d: Vec<&str> = pre.to_vec();
                d.extend(["debug", runfile.as_str(), "--minimal", "--command", "quit"]);
                d.extend(flag);
                let dbg = lace.run(&d, b"");
                if dbg.status != r.status || program_output(&dbg.out()) != program_output(&r.out()) {
                    acc.violation(format!("C18/debug-differs-from-run/{}/{}", c.uses_ext, if on { "on" } else { "off" }), format!("`lace debug {} {:?} --command quit` exits {} but `lace run` exits {}", c.name, flag, dbg.status, r.status), case.clone());
                }
                // ... and after a `reset` before anything ran (the machine is put back from the
                // debugger's saved copy: the flag must still decide)
                let mut d: Vec<&str> = pre.to_vec();
                d.extend(["debug", runfile.as_str(), "--minimal", "--command", "reset;reset;quit"]);
                d.extend(flag);
                let dbg = lace.run(&d, b"");
                if dbg.status != r.status || program_output(&dbg.out()) != program_output(&r.out()) {
                    acc.violation(format!("C18/debug-after-reset-differs-from-run/{}/{}", c.uses_ext, if on { "on" } else { "off" }), format!("`lace debug {} {:?} --command 'reset;reset;quit'` exits {} but `lace run` exits {}", c.name, flag, dbg.status, r.status), case.clone());
                }
            }
        }
        for ext in ["asm", "lc3"] {
            let _ = std::fs::remove_file(lace.cwd.join(format!("{base}.{ext}")));
        }
        if r.class() == "crash" {
            acc.violation(format!("C18/run-crash/{}", c.uses_ext), format!("run of {} crashed: {}", c.name, r.err().lines().find(|l| l.contains("panicked")).unwrap_or("")), case);
            return;
        }
        // expectation from the reference
        let image: Option<Vec<u16>> = match (&c.text, &c.image) {
            (_, Some(img)) => Some(img.clone()),
            (Some(_), None) => compiled.as_ref().map(|b| b.chunks(2).map(|x| u16::from_be_bytes([x[0], x[1]])).collect()),
            _ => None,
        };
        match c.uses_ext {
            "mnemonic" if on => {
                if compile_status != Some(0) {
                    acc.violation("C18/rejected-with-flag", format!("{} rejected although the stack feature is on", c.name), case);
                    return;
                }
            }
            "mnemonic-as-label" if on => {
                // with the flag the word is an ordinary instruction token: whether the line is then
                // well-formed (`rets add r0 r0 r0` is two statements) is the grammar's business
                acc.skip("extension mnemonic in label position with the flag on");
                return;
            }
            "mnemonic" | "mnemonic-as-label" => {
                // without the flag: rejected (checked above)
                if r.out().contains("Running") {
                    acc.violation(format!("C18/{}-accepted", c.uses_ext), format!("{} got past assembling (flag {:?})", c.name, flag), case);
                    return;
                }
                acc.nontrivial();
                acc.gate("rejected-with-feature-diagnostic");
                acc.outcome(format!("{}/{}/rejected", c.uses_ext, if on { "on" } else { "off" }));
                return;
            }
            _ => {}
        }
        let Some(image) = image else {
            acc.violation("C18/no-image", format!("{}: no object file to compare", c.name), case);
            return;
        };
        let Some(mut m) = Machine::load(&image) else { return };
        let mut io = Io::new(&[]);
        let rr = vm::run(&mut m, on, super::variant::measured(), &mut io, 100_000);
        let want = match rr.end {
            RunEnd::Normal => 0,
            RunEnd::OutOfBounds => 0xEE,
            RunEnd::Exit(c) => c,
            _ => return,
        };
        if r.status != want {
            acc.violation(format!("C18/run-status/{}/{}", c.uses_ext, if on { "on" } else { "off" }), format!("{} with flag {:?}: exit status {}, expected {}", c.name, flag, r.status, want), case);
            return;
        }
        let out = program_output(&r.out()).unwrap_or_default().replace("\n      Halted\n", "").replace("\n      Halted", "");
        if !io.out_unjudged && out.trim_end_matches('\n') != io.out.trim_end_matches('\n') {
            acc.violation(format!("C18/run-output/{}", c.uses_ext), format!("{} with flag {:?}: printed {:?}, expected {:?}", c.name, flag, out, io.out), case);
            return;
        }
        acc.nontrivial();
        if c.uses_ext == "raw-word" && !on && want == 1 {
            acc.gate("opcode-xD-gated-at-run-time");
        }
        if c.uses_ext != "none" && on && want == 0 {
            acc.gate("extension-executes-with-flag");
        }
        acc.outcome(format!("{}/{}/status{}", c.uses_ext, if on { "on" } else { "off" }, want));
        if k % 17 == 0 {
            acc.sample(format!("cli{k}"), json!({"name": c.name, "flag": flag, "status": r.status}));
        }
    });
    let mut acc = Acc::merge_all(parts);

    // the flag is thread-local state of the library (features.rs): two machines with different
    // flag values in ONE process, in both orders - nothing process-wide may remember the first
    let gate_images: Vec<Vec<u16>> = vec![vec![0x3000, 0x1021, 0xD400, 0x1021], vec![0x3000, 0xD400, 0xF025], vec![0x3000, 0xD400, 0xD040, 0xF025]];
    let parts = pooled(None, 2 * gate_images.len(), 1, Acc::new, |acc, k| {
        let img = &gate_images[k / 2];
        let order = if k % 2 == 0 { [true, false, true] } else { [false, true, false] };
        acc.eval("two-flag-values-in-one-process");
        for (step, flag) in order.iter().enumerate() {
            match judge_image(img, *flag, 300) {
                Ok(None) => {}
                Err(w) => {
                    acc.skip(w);
                    return;
                }
                Ok(Some((sig, what))) => {
                    acc.violation(format!("C18/flag-of-another-machine-leaks/{}/{sig}", if *flag { "on-after-off" } else { "off-after-on" }), format!("machine {} of the process (flag {}), after machines with the other flag value: {what}", step + 1, if *flag { "on" } else { "off" }), json!({"image": img, "order": order}));
                    return;
                }
            }
        }
        acc.nontrivial();
    });
    for p in parts {
        acc.merge(p);
    }
    // programs that use none of the four mnemonics assemble to the same image under both flags
    let mut corpus: Vec<Program> = e1_single_statements(false).into_iter().filter(|c| !c.stack && !c.space.starts_with("E1/fill")).map(|c| c.prog).collect();
    for n in 1..=ctx.tier.pick(3, 5) {
        corpus.extend(e2_single_reference(n).into_iter().filter(|c| !c.stack).map(|c| c.prog));
    }
    corpus.extend((0..=0xFFFFu32).step_by(ctx.tier.pick(64, 8)).map(|w| Program::of(vec![Stmt::Fill(Lit::hex(w as u16))])));
    for flag in [false, true] {
        let parts = pooled(Some(Env::new(flag)), corpus.len(), 64, Acc::new, |acc, i| {
            let prog = &corpus[i];
            let text = print_plain(prog);
            acc.eval(if flag { "corpus/flag-on" } else { "corpus/flag-off" });
            // the reference image does not depend on the flag for these programs
            let mut v = compare(prog, &text, flag);
            if !matches!(v, Verdict::AgreeOk | Verdict::AgreeReject(..) | Verdict::NotJudged(_)) {
                v = confirm_fresh(|| compare(prog, &text, flag));
            }
            match v {
                Verdict::AgreeOk | Verdict::AgreeReject(..) => {
                    acc.nontrivial();
                    acc.gate("corpus-image-flag-independent");
                }
                Verdict::NotJudged(w) => acc.skip(w),
                other => {
                    let kind = match &other { Verdict::ImageDiffers { .. } => "image-differs", Verdict::AcceptsInvalid { .. } => "accepts", Verdict::RejectsValid { .. } => "rejects", _ => "panic" };
                    acc.violation(format!("C18/flag-changes-assembly/{kind}/{}", if flag { "on" } else { "off" }), format!("a program without extension mnemonics assembles differently with the flag {}: {other:?}", if flag { "on" } else { "off" }).chars().take(400).collect::<String>(), case_json(prog, &text, flag));
                }
            }
        });
        for p in parts {
            acc.merge(p);
        }
        // images without opcode xD run identically under both flags
        let tmpl: Vec<_> = templates().into_iter().filter(|(_, img, _)| img[1..].iter().all(|w| w >> 12 != 0xD)).collect();
        let parts = pooled(Some(Env::new(flag)), tmpl.len(), 1, Acc::new, |acc, i| {
            let (name, img, _) = &tmpl[i];
            acc.eval(if flag { "templates/flag-on" } else { "templates/flag-off" });
            let mut v = judge_image(img, flag, 300);
            if matches!(v, Ok(Some(_))) {
                v = confirm_fresh(|| judge_image(img, flag, 300));
            }
            match v {
                Ok(None) => {
                    acc.nontrivial();
                    acc.gate("run-flag-independent");
                }
                Err(w) => acc.skip(w),
                Ok(Some((sig, what))) => acc.violation(format!("C18/flag-changes-run/{sig}"), format!("{name}: {what}"), json!({"image": img, "stack_feature": flag})),
            }
        });
        for p in parts {
            acc.merge(p);
        }
    }
    // `step out` belongs to the extension (it follows CALL/RETS and JSR/RET nesting): without the
    // flag it is refused at EVERY program counter - also on a RET / RETS word - and changes nothing.
    {
        let progs: [(&str, &str); 2] = [
            ("jsr-ret", "jsr f\nadd r1 r1 #1\nhalt\nf add r2 r2 #1\njsr g\nadd r2 r2 #1\nret\ng add r3 r3 #1\nret\n"),
            ("raw-rets-word", "add r1 r1 #1\nlea r7 w\n.fill xD800\nhalt\nw .fill x3003\n"),
        ];
        let parts = pooled(Some(Env::new(false)), progs.len() * 12, 1, Acc::new, |acc, i| {
            let (name, text) = progs[i / 12];
            let k = i % 12;
            acc.eval("step-out-without-flag");
            let a = crate::session::session(text, Env::new(false), Some(&format!("si {k};registers;exit")), 100_000);
            let b = crate::session::session(text, Env::new(false), Some(&format!("si {k};so;registers;exit")), 100_000);
            let case = json!({"step_out": true, "program": name, "source": text, "steps": k});
            match (a, b) {
                (Ok(crate::session::SessionResult::Ran(a)), Ok(crate::session::SessionResult::Ran(b))) => {
                    if a.ended != b.ended {
                        acc.violation("C18/step-out-without-flag/ends-differently", format!("{name}: after `si {k}` a `step out` without the flag changes how the session ends: {:?} vs {:?}", b.ended, a.ended), case);
                    } else if let Some(d) = crate::session::machine_diff(&b.machine, &a.machine) {
                        acc.violation("C18/step-out-without-flag/executes", format!("{name}: after `si {k}` a `step out` without the flag is not refused, the machine moved: {d}"), case);
                    } else {
                        acc.nontrivial();
                        acc.gate("step-out-refused-without-flag");
                    }
                }
                _ => acc.skip("session did not run"),
            }
        });
        for p in parts {
            acc.merge(p);
        }
    }
    finish(
        ctx,
        acc,
        Level { category: "model_checking", bfs: None },
        "exhaustive configuration enumeration: {no flag, -f stack, --features stack, --features=, the list forms `,stack` `stack,` `,,stack` `,`, the flag both before and after the sub-command} x sources using each of push/pop/call/rets as instruction (three letter cases), in label position and as a label operand; sources and .lc3 images with raw xD words of all four sub-kinds reached at run time (and present but never reached), and programs that synthesise such a word at run time (it is not in the image); 8 seed programs without the extension - through `lace compile`, `lace run`, the bare-path form `lace FILE` and `lace debug FILE --command quit` of the real binary (the latter two must behave like `run`): without the flag the diagnostic must name the feature and opcode xD must exit with status 1 having executed only what precedes it, with it the programs assemble and run as the reference machine says. In-process: machines with different flag values one after the other in one process (both orders); a corpus of programs without the four mnemonics (E1 single statements, E2 label placements, .fill sweep) and the C03 templates without opcode xD, assembled / run under BOTH flag values and compared with the flag-independent reference; `step out` without the flag after 0..11 instructions of a JSR/RET program and of one with a raw RETS word (refused everywhere: same machine as without it). non-trivial = agreeing cases",
        true,
        &["rejected-with-feature-diagnostic", "opcode-xD-gated-at-run-time", "extension-executes-with-flag", "corpus-image-flag-independent", "run-flag-independent", "step-out-refused-without-flag"],
        &["reference image and machine are flag-independent for programs that avoid the extension"],
        json!({"cli_cases": cases.len() * flags.len(), "corpus": corpus.len()}),
    )
}

pub fn replay(ctx: &Ctx, case: &Value) -> Option<Option<String>> {
    if case["cli"].as_bool() == Some(true) {
        let lace = Lace::new(&ctx.lace_bin, &ctx.scratch);
        let flag: Vec<String> = case["flag"].as_array()?.iter().map(|v| v.as_str().unwrap().to_string()).collect();
        let file = if let Some(t) = case["source"].as_str() {
            lace.write("r.asm", t.as_bytes());
            "r.asm"
        } else {
            let img: Vec<u16> = case["image"].as_array()?.iter().map(|v| v.as_u64().unwrap() as u16).collect();
            lace.write("r.lc3", &be_bytes(&img));
            "r.lc3"
        };
        let mut a = vec!["run", file, "--minimal"];
        a.extend(flag.iter().map(|s| s.as_str()));
        let r = lace.run(&a, b"");
        return Some(Some(format!("run exits {}: {}", r.status, r.err().lines().next().unwrap_or(""))));
    }
    super::asmcommon::replay_source(case)
}
