//! C15 — eval executes the instruction it is given, here and now.

use super::dbgcommon::*;
use crate::isolate::{confirm_fresh, pooled, Env};
use crate::refmodel::asm::*;
use crate::refmodel::dbg::{Cmd, Loc, Pause};
use crate::report::{finish, Acc, Ctx, Level, Tier};
use crate::session::Ended;
use serde_json::{json, Value};

pub fn program15() -> Prog {
    let mut p = Program::default();
    p.push(Some("before"), Stmt::Fill(Lit::hex(0x00AA)));
    p.push(Some("ptrb"), Stmt::Fill(Lit::hex(0x3009)));
    p.push(Some("first"), Stmt::Add(1, 1, Src2::Imm(Lit::dec(1))));
    p.push(Some("second"), Stmt::Add(2, 2, Src2::Imm(Lit::dec(2))));
    p.push(Some("third"), Stmt::Not(3, 3));
    p.push(Some("sub"), Stmt::Ret);
    p.push(Some("end"), Stmt::Named(0x25, "halt"));
    p.push(Some("after"), Stmt::Fill(Lit::hex(0x00BB)));
    p.push(Some("ptra"), Stmt::Fill(Lit::hex(0x3000)));
    p.push(Some("cell"), Stmt::Fill(Lit::hex(0x0000)));
    p.push(Some("msg"), Stmt::Stringz("hi".into()));
    Prog::new("eval-host", p, true)
}

/// A second host: labels more than 256 and more than 1024 words away from the origin (beyond
/// the reach of every PC-relative field measured from the first statement), with code next to them.
pub fn program15_long() -> Prog {
    let mut p = Program::default();
    p.push(Some("first"), Stmt::Add(1, 1, Src2::Imm(Lit::dec(1))));
    p.push(Some("end"), Stmt::Named(0x25, "halt"));
    p.push(Some("pad"), Stmt::Blkw(Lit::dec(300)));
    p.push(Some("mid"), Stmt::Add(0, 0, Src2::Imm(Lit::dec(0))));
    p.push(Some("midval"), Stmt::Fill(Lit::hex(0x0042)));
    p.push(Some("padb"), Stmt::Blkw(Lit::dec(1100)));
    p.push(Some("near"), Stmt::Add(0, 0, Src2::Imm(Lit::dec(0))));
    p.push(Some("sub"), Stmt::Ret);
    p.push(Some("val"), Stmt::Fill(Lit::hex(0x1234)));
    p.push(Some("ptr"), Stmt::Fill(Lit::hex(0x3000)));
    Prog::new("eval-host-long", p, true)
}

pub fn workload_long(prog: &Prog) -> Vec<Work> {
    let mut w = Vec::new();
    let orig = prog.image.origin();
    let mut pcs = vec![orig, orig + 1];
    for l in ["mid", "midval", "near", "sub", "val"] {
        pcs.push(prog.addr_of(l));
        pcs.push(prog.addr_of(l) + 1);
    }
    for pc in pcs {
        for (label, _) in &prog.image.labels {
            let target = prog.addr_of(label);
            for (m, op) in [("ld", 0x2000u16), ("ldi", 0xA000), ("lea", 0xE000), ("st", 0x3000), ("sti", 0xB000)] {
                if m == "sti" && label != "ptr" {
                    continue;
                }
                if m == "ldi" && !(label == "ptr") {
                    continue;
                }
                w.push(Work { space: "label-operand/far-from-origin", regs: vec![(5, 0x5151)], pc, text: format!("{m} r5 {label}"), word: pcrel_word(op, 5, 9, pc, target), open: None, jump: false, before: None });
            }
            w.push(Work { space: "label-operand/far-from-origin/jsr", regs: vec![], pc, text: format!("jsr {label}"), word: pcrel_word(0x4800, 0, 11, pc, target).map(|x| x & 0x4FFF | 0x4800), open: Some(7), jump: false, before: None });
            w.push(Work { space: "label-operand/far-from-origin/call", regs: vec![], pc, text: format!("call {label}"), word: pcrel_word(0xDC00, 0, 10, pc, target).map(|x| x & 0x03FF | 0xDC00), open: Some(8), jump: false, before: None });
        }
    }
    w
}

#[derive(Debug, Clone)]
pub struct Work {
    pub space: &'static str,
    /// register setup
    pub regs: Vec<(u8, u16)>,
    pub pc: u16,
    pub text: String,
    /// what the reference does: Some(word) executes it, None refuses
    pub word: Option<u16>,
    /// location whose value the property leaves open: 7 = R7, 8 = the word pushed by CALL
    pub open: Option<u8>,
    /// reach `pc` with `move r2 pc; eval jmp r2` instead of `goto pc` (goto refuses addresses
    /// outside user space; a jump gets there)
    pub jump: bool,
    /// an earlier `goto pc; eval text` in the same session (what it executes is `word`)
    pub before: Option<(u16, String, Option<u16>)>,
}

fn pcrel_word(op: u16, r: u8, bits: u32, pc: u16, target: u16) -> Option<u16> {
    let off = target as i32 - pc as i32;
    let lo = -(1i32 << (bits - 1));
    let hi = (1i32 << (bits - 1)) - 1;
    if off < lo || off > hi {
        return None;
    }
    Some(op | ((r as u16) << 9) | (off as u16 & ((1u32 << bits) - 1) as u16))
}

pub fn workload(tier: Tier, prog: &Prog) -> Vec<Work> {
    let mut w = Vec::new();
    let vals: Vec<u16> = match tier {
        Tier::Quick => vec![0, 1, 0x7FFF, 0x8000, 0xFFFF],
        Tier::Thorough => vec![0, 1, 0x7FFF, 0x8000, 0xFFFF, 0x3000, 0xFDFF, 0x1234],
    };
    let orig = prog.image.origin();
    let pcs: Vec<u16> = (0..prog.image.words.len() as u16).map(|i| orig + i).collect();
    let lay = Layout::PLAIN;
    // 1. register / immediate forms over operand values and register fields, at two PCs
    for pc in [orig, orig + 4] {
        for d in [0u8, 3, 7] {
            for a in [0u8, 3, 6] {
                for va in &vals {
                    for (stmt, word) in [
                        (Stmt::Add(d, a, Src2::Reg(1)), 0x1000 | (d as u16) << 9 | (a as u16) << 6 | 1),
                        (Stmt::And(d, a, Src2::Reg(1)), 0x5000 | (d as u16) << 9 | (a as u16) << 6 | 1),
                        (Stmt::Add(d, a, Src2::Imm(Lit::dec(-16))), 0x1000 | (d as u16) << 9 | (a as u16) << 6 | 0x30),
                        (Stmt::And(d, a, Src2::Imm(Lit::dec(15))), 0x5000 | (d as u16) << 9 | (a as u16) << 6 | 0x2F),
                        (Stmt::Not(d, a), 0x9000 | (d as u16) << 9 | (a as u16) << 6 | 0x3F),
                    ] {
                        for vb in [0x0001u16, 0xFFFF] {
                            w.push(Work { space: "alu", regs: vec![(a, *va), (1, vb)], pc, text: stmt_text(&stmt, &lay), word: Some(word), open: None, jump: false, before: None });
                        }
                    }
                }
            }
        }
    }
    // 2. base + offset forms: base register points into the program's data, offsets at the limits
    for pc in [orig, orig + 6] {
        for off in [-32i32, -1, 0, 1, 31] {
            for base in [prog.addr_of("cell"), prog.addr_of("after"), 0xFFFF, 0x0000] {
                let b = (base as i32 - off) as u16;
                w.push(Work { space: "base+offset", regs: vec![(2, b), (4, 0x4242)], pc, text: format!("ldr r4 r2 #{off}"), word: Some(0x6000 | 4 << 9 | 2 << 6 | (off as u16 & 0x3F)), open: None, jump: false, before: None });
                if base >= orig && base < 0xFE00 {
                    w.push(Work { space: "base+offset", regs: vec![(2, b), (4, 0x4242)], pc, text: format!("str r4 r2 #{off}"), word: Some(0x7000 | 4 << 9 | 2 << 6 | (off as u16 & 0x3F)), open: None, jump: false, before: None });
                }
            }
        }
    }
    // 3. label operands at EVERY current PC, labels before and after it
    for pc in &pcs {
        for (label, _) in &prog.image.labels {
            let target = prog.addr_of(label);
            for (m, op, store) in [("ld", 0x2000u16, false), ("ldi", 0xA000, false), ("lea", 0xE000, false), ("st", 0x3000, true), ("sti", 0xB000, true)] {
                if m == "sti" && !(label == "ptra" || label == "ptrb") {
                    continue; // STI through a data word that is not a pointer into user space writes anywhere
                }
                let _ = store;
                w.push(Work { space: "label-operand", regs: vec![(5, 0x5151)], pc: *pc, text: format!("{m} r5 {label}"), word: pcrel_word(op, 5, 9, *pc, target), open: None, jump: false, before: None });
            }
            w.push(Work { space: "label-operand/jsr", regs: vec![], pc: *pc, text: format!("jsr {label}"), word: pcrel_word(0x4800, 0, 11, *pc, target).map(|x| x & 0x4FFF | 0x4800), open: Some(7), jump: false, before: None });
            w.push(Work { space: "label-operand/call", regs: vec![], pc: *pc, text: format!("call {label}"), word: pcrel_word(0xDC00, 0, 10, *pc, target).map(|x| x & 0x03FF | 0xDC00), open: Some(8), jump: false, before: None });
        }
    }
    // 3b. the same with the PC outside the program: below the origin (reached by a jump; `goto`
    // refuses it), in the free space above the program, and in the first and last word of memory
    let n = prog.image.words.len() as u16;
    for pc in [orig - 1, orig - 2, orig - 16, orig - 200, orig + n, orig + n + 3, orig + 200, 0x0000, 0xFFFE] {
        for (label, _) in &prog.image.labels {
            let target = prog.addr_of(label);
            for (m, op) in [("ld", 0x2000u16), ("lea", 0xE000), ("st", 0x3000)] {
                w.push(Work { space: "label-operand/pc-outside-program", regs: vec![(5, 0x5151)], pc, text: format!("{m} r5 {label}"), word: pcrel_word(op, 5, 9, pc, target), open: None, jump: true, before: None });
            }
            w.push(Work { space: "label-operand/pc-outside-program", regs: vec![], pc, text: format!("jsr {label}"), word: pcrel_word(0x4800, 0, 11, pc, target).map(|x| x & 0x4FFF | 0x4800), open: Some(7), jump: true, before: None });
        }
    }
    // 3c. the same text evaluated twice in one session at two different PCs (and two different
    // texts at the same PC): nothing may be remembered from one eval to the next
    for (a, b) in [(orig, orig + 2), (orig + 5, orig + 1), (orig + 3, orig + 3)] {
        for (label, _) in &prog.image.labels {
            let target = prog.addr_of(label);
            for (m, op) in [("ld", 0x2000u16), ("lea", 0xE000), ("st", 0x3000)] {
                let text = format!("{m} r5 {label}");
                w.push(Work { space: "label-operand/evaluated-twice", regs: vec![(5, 0x5151)], pc: b, text: text.clone(), word: pcrel_word(op, 5, 9, b, target), open: None, jump: false, before: Some((a, text.clone(), pcrel_word(op, 5, 9, a, target))) });
                let other = format!("{m} r4 {label}");
                w.push(Work { space: "label-operand/evaluated-twice", regs: vec![(5, 0x5151)], pc: b, text: text.clone(), word: pcrel_word(op, 5, 9, b, target), open: None, jump: false, before: Some((a, other, pcrel_word(op, 4, 9, a, target))) });
            }
        }
    }
    // 4. jumps through registers, stack instructions, traps that print
    for pc in [orig, orig + 3] {
        for v in [orig, orig + 5, 0xFFFF, 0x0000] {
            w.push(Work { space: "jump", regs: vec![(2, v)], pc, text: "jmp r2".into(), word: Some(0xC080), open: None, jump: false, before: None });
            w.push(Work { space: "jump", regs: vec![(2, v)], pc, text: "jsrr r2".into(), word: Some(0x4080), open: Some(7), jump: false, before: None });
            w.push(Work { space: "jump", regs: vec![(7, v)], pc, text: "ret".into(), word: Some(0xC1C0), open: None, jump: false, before: None });
        }
        w.push(Work { space: "stack", regs: vec![(3, 0x3333)], pc, text: "push r3".into(), word: Some(0xD4C0), open: None, jump: false, before: None });
        w.push(Work { space: "stack", regs: vec![(7, prog.addr_of("after"))], pc, text: "pop r3".into(), word: Some(0xD0C0), open: None, jump: false, before: None });
        w.push(Work { space: "stack", regs: vec![(7, prog.addr_of("ptra"))], pc, text: "rets".into(), word: Some(0xD800), open: None, jump: false, before: None });
        w.push(Work { space: "trap", regs: vec![(0, 0x0041)], pc, text: "out".into(), word: Some(0xF021), open: None, jump: false, before: None });
        w.push(Work { space: "trap", regs: vec![(0, prog.addr_of("msg"))], pc, text: "puts".into(), word: Some(0xF022), open: None, jump: false, before: None });
        w.push(Work { space: "trap", regs: vec![(0, 0xFFFE)], pc, text: "putn".into(), word: Some(0xF026), open: None, jump: false, before: None });
        w.push(Work { space: "trap", regs: vec![(0, 0x0007)], pc, text: "reg".into(), word: Some(0xF027), open: None, jump: false, before: None });
        w.push(Work { space: "trap", regs: vec![(0, 0x0042)], pc, text: "trap x21".into(), word: Some(0xF021), open: None, jump: false, before: None });
    }
    // 5. refused: off-limits instructions and text that is not exactly one well-formed instruction
    let refused = [
        "br first", "brnzp first", "brn end", "brz #1", "rti", "halt", "trap x25", "trap x00", "trap x1F", "trap x28", "trap xFF", "trap x7F",
        "add r0 r0", "add r0", "add", "add r0 r0 r0 r0", "add r0 r0 r0 #1", "add r0 r0 #16", "add r0 r0 first", "add r0 #1 r0", "not r0", "not r0 r0 r0",
        "ld r0", "ld r0 nolabel", "ld r0 r1", "ld first", "ldr r0 r1", "ldr r0 r1 #32", "str r0 r1 first", "jmp", "jmp first", "jmp r1 r2", "jsr", "jsr r1", "jsrr first",
        "push", "push #1", "pop r1 r2", "call", "call r1", "rets r1", "ret r7", "out r0", "puts first", "trap", "trap r0", "trap x100",
        "add r0 r0 r0 add r1 r1 r1", "not r1 r1 halt", ".fill x1", ".stringz \"a\"", ".blkw 2", ".orig x3000", ".break", ".end", "first", "r0", "#5", "x3000", "\"str\"", "é", "foo bar",
        "first add r0 r0 r0", "ld r9 first", "add r0 r0 r8",
    ];
    // one well-formed instruction followed (or preceded) by any further token: never "exactly one
    // well-formed instruction" - except a comment or a bare separator, which are white space
    for (base, word, r, v) in [("add r1 r1 #1", 0x1261u16, 1u8, 0x0010u16), ("not r2 r2", 0x94BF, 2, 0x00F0), ("ret", 0xC1C0, 7, orig + 2)] {
        for tok in super::c05::TOKENS {
            if tok.contains(';') {
                continue; // `;` separates debugger commands: a comment cannot be written inside one
            }
            let blank = tok == ",";
            w.push(Work { space: "surplus-token", regs: vec![(r, v)], pc: orig + 1, text: format!("{base} {tok}"), word: if blank { Some(word) } else { None }, open: None, jump: false, before: None });
            if !blank {
                w.push(Work { space: "surplus-token", regs: vec![(r, v)], pc: orig + 1, text: format!("{tok} {base}"), word: None, open: None, jump: false, before: None });
            }
        }
        for tok in [".END", ".end add r2 r2 #2", ".end \"oops", ".orig x3000", ".break"] {
            w.push(Work { space: "surplus-token", regs: vec![(r, v)], pc: orig + 1, text: format!("{base} {tok}"), word: None, open: None, jump: false, before: None });
        }
    }
    for pc in [orig, orig + 4] {
        for text in refused {
            w.push(Work { space: "refused", regs: vec![(0, 0x0011)], pc, text: text.to_string(), word: None, open: None, jump: false, before: None });
        }
    }
    w
}

pub fn judge(prog: &Prog, wk: &Work) -> Result<Pause, Mismatch> {
    let mut owned: Vec<Action> = Vec::new();
    for (r, v) in &wk.regs {
        owned.push(Action::of(Cmd::MoveReg(*r, *v)));
    }
    if let Some((pc0, text0, word0)) = &wk.before {
        owned.push(Action::of(Cmd::Goto(Loc::Abs(*pc0))));
        owned.push(Action::eval(text0, *word0));
    }
    if wk.jump {
        owned.push(Action::of(Cmd::MoveReg(2, wk.pc)));
        owned.push(Action::eval("jmp r2", Some(0xC080)));
    } else {
        owned.push(Action::of(Cmd::Goto(Loc::Abs(wk.pc))));
    }
    owned.push(Action::eval(&wk.text, wk.word));
    owned.push(Action::spelled("move r6 #123", Cmd::MoveReg(6, 123)));
    let actions: Vec<&Action> = owned.iter().collect();
    let obs = run_real(prog, &actions, Tail::Exit, true).map_err(|(sig, what)| Mismatch { sig: format!("eval/{sig}"), what })?;
    let (mut d, pauses) = run_ref(prog, &actions);
    let eval_pause = pauses.get(pauses.len().saturating_sub(2)).copied().unwrap_or(Pause::Done);
    // locations the property leaves open take the implementation's value
    match wk.open {
        Some(7) => d.m.r[7] = obs.machine.r[7],
        Some(8) => {
            let sp = d.m.r[7] as usize;
            d.m.mem[sp] = obs.machine.mem[sp];
        }
        _ => {}
    }
    let class = if wk.word.is_none() { "malformed-or-off-limits" } else { wk.space };
    if let Ended::Panic(p) = &obs.ended {
        let site = p.trim_start_matches("panic at ").split(':').take(2).collect::<Vec<_>>().join(":");
        return Err(Mismatch { sig: format!("eval/{class}/session-panicked/{site}"), what: format!("`eval {}` ended the session: {p}", wk.text) });
    }
    if matches!(obs.ended, Ended::Exit(_)) && !matches!(pauses.last(), Some(Pause::Exit(_))) {
        return Err(Mismatch { sig: format!("eval/{class}/session-ended"), what: format!("`eval {}` ended the session ({:?})", wk.text, obs.ended) });
    }
    match compare_paused(prog, &actions, &obs, &d, &pauses) {
        Ok(_) => Ok(eval_pause),
        Err(m) => {
            let kind = m.sig.split('/').nth(1).unwrap_or("?").to_string();
            let at = if wk.pc == prog.image.origin() { "pc=origin" } else { "pc!=origin" };
            Err(Mismatch { sig: format!("eval/{class}/{kind}/{at}"), what: format!("`goto x{:04x}; eval {}`: {}", wk.pc, wk.text, m.what) })
        }
    }
}

pub fn run(ctx: &Ctx) -> i32 {
    let _ = super::variant::measured();
    let progs = [program15(), program15_long()];
    let works = [workload(ctx.tier, &progs[0]), workload_long(&progs[1])];
    let n0 = works[0].len();
    let parts = pooled(Some(Env::new(true)), n0 + works[1].len(), 16, Acc::new, |acc, k| {
        let (host, i) = if k < n0 { (0, k) } else { (1, k - n0) };
        let prog = &progs[host];
        let wk = &works[host][i];
        acc.eval(wk.space);
        if wk.word.is_none() && wk.space != "refused" && wk.space != "surplus-token" {
            acc.skip("label too far from the current PC for the instruction's offset field");
            return;
        }
        let mut r = judge(prog, wk);
        if r.is_err() {
            r = confirm_fresh(|| judge(prog, wk));
        }
        match r {
            Ok(p) => {
                acc.nontrivial();
                acc.gate(if wk.word.is_some() { "executed-and-equal" } else { "refused-and-alive" });
                if wk.pc != prog.image.origin() && wk.space.starts_with("label-operand") {
                    acc.gate("label-operand-away-from-origin");
                }
                if wk.jump && wk.word.is_some() && wk.pc < prog.image.origin() {
                    acc.gate("label-operand-with-pc-below-origin");
                }
                if host == 1 && wk.word.is_some() && wk.pc > prog.image.origin() + 1024 {
                    acc.gate("label-operand-beyond-1024-words-from-origin");
                }
                acc.outcome(format!("{}/{:?}", wk.space, p));
                if i % 503 == 0 {
                    acc.sample(format!("{i}"), json!({"script": format!("goto x{:04x};eval {};move r6 #123;exit", wk.pc, wk.text), "reference_word": wk.word.map(|w| format!("x{w:04X}"))}));
                }
            }
            Err(m) => {
                acc.outcome(format!("violation:{}", m.sig));
                acc.violation(format!("C15/{}", m.sig), m.what, json!({"source": prog.text, "host": host, "work_index": i, "tier": ctx.tier.name(), "regs": wk.regs, "pc": wk.pc, "eval": wk.text, "reference_word": wk.word}));
            }
        }
    });
    let acc = Acc::merge_all(parts);
    finish(
        ctx,
        acc,
        Level { category: "model_checking", bfs: None },
        "bounded-exhaustive enumeration of `move ...; goto a; eval <text>; move r6 #123; exit` sessions on a host program with labels before and after every PC: ALU forms over register fields x covering operand values at two PCs; LDR/STR with offsets at the field limits and bases at both ends of memory; LD/LDI/LEA/ST/STI/JSR/CALL with a label operand for every label x EVERY current PC of the program, and LD/LEA/ST/JSR for every label with the PC outside the program (below the origin - reached with `eval jmp`, since goto refuses it - above the program, x0000, xFFFE), and the same and a similar text evaluated twice in one session at different PCs; the label forms again on a second host whose labels lie 300 and 1400 words from the origin, at 12 PCs next to them; JMP/JSRR/RET, PUSH/POP/RETS, printing traps; 66 malformed or off-limits texts, and three instructions followed or preceded by each token of a 32-token alphabet (every lexical kind incl. every directive) (BR*, RTI, HALT, trap vectors outside x20-x27, missing / surplus / wrong-kind operands, two instructions, directives, non-instructions). Oracle: reference executes the ISA encoding of the instruction with label operands denoting the label's address and PC unchanged unless the instruction jumps; R7 written by JSR/JSRR and the word pushed by CALL are left open; refused texts leave all state unchanged and the following `move r6` still takes effect. non-trivial = sessions that agreed",
        true,
        &["executed-and-equal", "refused-and-alive", "label-operand-away-from-origin", "label-operand-with-pc-below-origin", "label-operand-beyond-1024-words-from-origin"],
        &["literal PC offsets are not generated (unspecified by the property)"],
        json!({}),
    )
}

pub fn replay(_ctx: &Ctx, case: &Value) -> Option<Option<String>> {
    let long = case["host"].as_u64() == Some(1);
    let prog = if long { program15_long() } else { program15() };
    let tier = if case["tier"].as_str() == Some("thorough") { Tier::Thorough } else { Tier::Quick };
    let work = if long { workload_long(&prog) } else { workload(tier, &prog) };
    let wk = work.get(case["work_index"].as_u64()? as usize)?;
    Some(confirm_fresh(|| judge(&prog, wk)).err().map(|m| format!("{}: {}", m.sig, m.what)))
}
