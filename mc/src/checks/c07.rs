//! C07 — check, compile and run agree on which sources are valid.

use crate::cli::Lace;
use crate::gen::programs::{far_label, seeds, RefKind, REF_KINDS};
use crate::isolate::pooled;
use crate::refmodel::asm::*;
use crate::report::{finish, Acc, Ctx, Level};
use serde_json::{json, Value};

pub struct Src {
    pub name: String,
    pub text: String,
    pub class: &'static str,
}

pub fn sources() -> Vec<Src> {
    let mut v = Vec::new();
    for (i, (p, stack)) in seeds().into_iter().enumerate() {
        v.push(Src { name: format!("seed{i}"), text: print_plain(&p), class: if stack { "valid-stack" } else { "valid" } });
    }
    for (i, t) in ["add r0 r0", ".bogus", "\"open", "lbl lbl add r0 r0 r0", "br nowhere", "x halt\nx halt", ".orig x3000\n.orig x3000\nhalt", "add r0 r0 #16", "é", "trap x100", ".fill", "ld r0"].iter().enumerate() {
        v.push(Src { name: format!("bad{i}"), text: t.to_string(), class: "early-error" });
    }
    // errors that only surface when words are emitted: out-of-range label reference of every
    // PC-relative kind at every statement position 0..=4, both signs
    for kind in REF_KINDS {
        let b = kind.bits();
        for sign in [1i64, -1] {
            let off = if sign > 0 { 1i64 << (b - 1) } else { -(1i64 << (b - 1)) - 1 };
            for pos in 0..=4usize {
                let Some(core) = far_label(kind, off) else { continue };
                let mut p = Program::default();
                // `pos` filler statements in front (they do not change the distance)
                for _ in 0..pos {
                    p.push(None, Stmt::Add(1, 1, Src2::Reg(1)));
                }
                p.items.extend(core.items);
                v.push(Src { name: format!("far-{}-{}-{}", kind.name(), if sign > 0 { "fwd" } else { "back" }, pos), text: print_plain(&p), class: if kind == RefKind::Call { "emission-error-stack" } else { "emission-error" } });
            }
            // in range by one: must be accepted by all three
            let okoff = if sign > 0 { (1i64 << (b - 1)) - 1 } else { -(1i64 << (b - 1)) };
            if let Some(p) = far_label(kind, okoff) {
                v.push(Src { name: format!("near-{}-{}", kind.name(), if sign > 0 { "fwd" } else { "back" }), text: print_plain(&p), class: if kind == RefKind::Call { "valid-stack" } else { "valid" } });
            }
        }
    }
    // two adjacent identical references whose pair straddles the field limit: the first is in
    // range, the second (one statement further from a backward label) is not
    for kind in REF_KINDS {
        let b = kind.bits();
        let pad = (1u32 << (b - 1)) - 2; // label at 0, padding, first reference at distance -(2^(b-1))
        let mut p = Program::default();
        p.push(Some("far"), Stmt::Named(0x25, "halt"));
        p.push(None, Stmt::Blkw(Lit::hex((pad + 1 - 1) as u16)));
        p.push(None, kind.stmt("far", 1));
        p.push(None, kind.stmt("far", 1));
        v.push(Src { name: format!("pair-straddling-limit-{}", kind.name()), text: print_plain(&p), class: if kind == RefKind::Call { "emission-error-stack" } else { "emission-error" } });
        // and the same pair one statement earlier: both in range
        let mut p = Program::default();
        p.push(Some("far"), Stmt::Named(0x25, "halt"));
        p.push(None, Stmt::Blkw(Lit::hex((pad - 1) as u16)));
        p.push(None, kind.stmt("far", 1));
        p.push(None, kind.stmt("far", 1));
        v.push(Src { name: format!("pair-inside-limit-{}", kind.name()), text: print_plain(&p), class: if kind == RefKind::Call { "valid-stack" } else { "valid" } });
    }
    // the same pairs in programs that do not fit in memory from their origin, the references lying
    // beyond the last word that fits: (a) origin xFFF0 (room for 16 words), (b) default origin
    // behind 53,300 reserved words (room for 53,248)
    for kind in REF_KINDS {
        let b = kind.bits();
        let pad = (1u32 << (b - 1)) - 2;
        for (place, bad) in [("origin-xFFF0", true), ("origin-xFFF0", false), ("behind-53300-words", true), ("behind-53300-words", false)] {
            let mut p = Program::default();
            if place == "origin-xFFF0" {
                p.items.push(Item::Orig(Lit::hex(0xFFF0)));
                p.push(None, Stmt::Named(0x25, "halt"));
            } else {
                p.push(None, Stmt::Named(0x25, "halt"));
                p.push(None, Stmt::Blkw(Lit::dec(53300)));
            }
            p.push(Some("far"), Stmt::Named(0x25, "halt"));
            p.push(None, Stmt::Blkw(Lit::hex(if bad { pad } else { pad - 1 } as u16)));
            p.push(None, kind.stmt("far", 1));
            p.push(None, kind.stmt("far", 1));
            let class = match (bad, kind == RefKind::Call) {
                (true, true) => "emission-error-stack",
                (true, false) => "emission-error",
                (false, true) => "valid-stack",
                (false, false) => "valid-near-top-of-memory",
            };
            v.push(Src { name: format!("pair-{}-limit-{}-{}", if bad { "straddling" } else { "inside" }, place, kind.name()), text: print_plain(&p), class });
        }
    }
    // programs whose image ends around the top of user space and of memory: the assembler has no
    // opinion on where a program is loaded, so all of them assemble (loading may fail later)
    for (orig, n) in [(0xFD00u32, 0x2FEu32), (0xFD00, 0x2FF), (0xFD00, 0x300), (0xFDF0, 0x10), (0xFF00, 0xFD), (0xFF00, 0xFE), (0xFF00, 0xFF), (0xFF00, 0x100), (0xFFFE, 1), (0xFFFF, 0), (0xFFFF, 1), (0x0000, 0xFFFD), (0x0000, 0xFFFE), (0x0001, 0xFFFE)] {
        let text = format!(".orig x{orig:04X}\nhalt\n.blkw x{n:X}\n");
        v.push(Src { name: format!("top-x{orig:04X}-{n:X}"), text, class: "valid-near-top-of-memory" });
    }
    // degenerate sources: nothing to assemble is a valid (empty) program for all three
    for (i, t) in ["", "\n", "; only a comment\n", ".orig x4000\n", ".end\n", ".orig x4000\n.end\n", "   \n\t\n"].iter().enumerate() {
        v.push(Src { name: format!("degenerate{i}"), text: t.to_string(), class: "valid" });
    }
    for (i, t) in ["push r0\nhalt", "pop r1\nhalt", "f rets\ncall f", "rets", "PUSH R0", "Call x\nx rets"].iter().enumerate() {
        v.push(Src { name: format!("stack{i}"), text: t.to_string(), class: "valid-stack" });
    }
    v
}

pub fn run(ctx: &Ctx) -> i32 {
    let lace = Lace::new(&ctx.lace_bin, &ctx.scratch);
    let srcs = sources();
    // does `check` accept a feature flag?
    lace.write("probe.asm", b"halt\n");
    let probe = lace.run(&["check", "probe.asm", "-f", "stack"], b"");
    let check_has_flag = probe.status != 2;
    let parts = pooled(None, srcs.len() * 2, 1, Acc::new, |acc, k| {
        let s = &srcs[k / 2];
        let stack = k % 2 == 1;
        acc.eval("source-x-flag");
        let file = format!("{}-{}.asm", s.name, stack as u8);
        lace.write(&file, s.text.as_bytes());
        let flag: Vec<&str> = if stack { vec!["-f", "stack"] } else { vec![] };
        let out = format!("{}-{}.lc3", s.name, stack as u8);
        let mut a_compile = vec!["compile", file.as_str(), out.as_str()];
        a_compile.extend(&flag);
        let mut a_run = vec!["run", file.as_str(), "--minimal"];
        a_run.extend(&flag);
        let compile = lace.run(&a_compile, b"");
        let run = lace.run(&a_run, b"");
        let check = if stack && !check_has_flag {
            None
        } else {
            let mut a = vec!["check", file.as_str()];
            if stack {
                a.extend(&flag);
            }
            Some(lace.run(&a, b""))
        };
        let _ = std::fs::remove_file(lace.cwd.join(&file));
        let _ = std::fs::remove_file(lace.cwd.join(&out));
        let case = json!({"source": if s.text.len() < 3000 { json!(s.text) } else { Value::Null }, "name": s.name, "class": s.class, "stack_flag": stack, "check": check.as_ref().map(|c| c.status), "compile": compile.status, "run": run.status});
        for (r, what) in [(Some(&compile), "compile"), (Some(&run), "run"), (check.as_ref(), "check")] {
            if let Some(r) = r {
                if r.class() == "crash" || r.class() == "timeout" {
                    acc.violation(format!("C07/{what}/crash/{}", s.class), format!("`lace {what}` on {} ({}) crashed with status {}: {}", s.name, s.class, r.status, r.err().lines().find(|l| l.contains("panicked")).unwrap_or("")), case.clone());
                    return;
                }
            }
        }
        // `run` judged only on assembling: a valid program may still exit non-zero at run time.
        // The assembling verdict of `run` is visible in its stdout: it prints "Running" only after
        // a successful assembly.
        // (a loader refusal - the image does not fit in memory - comes after a successful assembly)
        let run_assembled = run.out().contains("Running") || run.err().contains("exception:");
        let compile_ok = compile.status == 0;
        if let Some(c) = &check {
            let check_ok = c.status == 0;
            if check_ok && !compile_ok {
                acc.violation(format!("C07/check-accepts-what-compile-rejects/{}", s.class), format!("`lace check` reports success on {} but `lace compile` rejects it: {}", s.name, compile.err().lines().find(|l| !l.trim().is_empty()).unwrap_or("")), case);
                return;
            }
            if !check_ok && compile_ok {
                acc.violation(format!("C07/check-rejects-what-compile-accepts/{}", s.class), format!("`lace check` rejects {} but `lace compile` accepts it", s.name), case);
                return;
            }
        } else {
            acc.skip("`lace check` has no feature flag: stack setting not checkable for check");
        }
        if compile_ok != run_assembled {
            acc.violation(format!("C07/run-and-compile-disagree/{}", s.class), format!("compile {} but run {} for {}", if compile_ok { "accepts" } else { "rejects" }, if run_assembled { "assembles it" } else { "rejects it" }, s.name), case);
            return;
        }
        acc.nontrivial();
        acc.gate(if compile_ok { "all-accept" } else { "all-reject" });
        if s.class.starts_with("emission-error") && !compile_ok {
            acc.gate("emission-only-error-rejected-by-all");
        }
        acc.outcome(format!("{}/{}/{}", s.class, if stack { "stack" } else { "nostack" }, if compile_ok { "accept" } else { "reject" }));
        if k % 23 == 0 {
            acc.sample(format!("{k}"), json!({"name": s.name, "class": s.class, "stack_flag": stack, "check": check.as_ref().map(|c| c.status), "compile": compile.status, "run": run.status}));
        }
    });
    let mut acc = Acc::merge_all(parts);

    // Part B: every re-check of `lace watch` is equivalent to a fresh `lace check`.
    // One real `lace watch` process per sequence of file contents; after each save the verdict of
    // the (last) re-check is compared with `lace check` on the same content. An event that is not
    // observed within the time limit is inconclusive, never a violation.
    let wsrc: [(&str, &str); 9] = [
        ("valid-a", "start add r0 r0 #1\nloop brp loop\ndata .fill x10\nhalt\n"),
        ("undefined-after-labels", "start add r0 r0 #1\nloop brz nowhere\ndata .fill x10\n"),
        ("valid-b-same-labels", "data .fill x5\nstart ld r0 data\nloop halt\n"),
        ("uses-undefined-data", "ld r0 data\nlea r1 start\nhalt\n"),
        ("lexer-error", "start add r0 r0 #1\n.bogus\n"),
        ("emission-error", "start br far\n.blkw x200\nfar halt\n"),
        ("valid-ref-on-line-1", "start br near\n.blkw x2\nnear halt\n"),
        ("jsr-600-ahead", "jsr far\nhalt\n.blkw #600\nfar ret\n"),
        ("br-600-ahead", "br far\nhalt\n.blkw #600\nfar ret\n"),
    ];
    let k = wsrc.len();
    let max_len = ctx.tier.pick(2, 3);
    let mut seqs: Vec<Vec<usize>> = Vec::new();
    for len in 1..=max_len {
        for idx in 0..crate::util::pow(k, len) {
            seqs.push(crate::util::seq(idx, k, len));
        }
    }
    // verdicts of `lace check` per content
    let check_ok: Vec<bool> = wsrc.iter().enumerate().map(|(i, (_, t))| {
        let f = format!("wcheck{i}.asm");
        lace.write(&f, t.as_bytes());
        lace.run(&["check", &f], b"").status == 0
    }).collect();
    let parts = pooled(None, seqs.len(), 1, Acc::new, |acc, si| {
        let seq = &seqs[si];
        acc.eval("watch-sequences");
        match watch_sequence(&lace, si, seq, &wsrc) {
            None => acc.skip("watch event not observed in time (inconclusive)"),
            Some(verdicts) => {
                for (step, ok) in verdicts.iter().enumerate() {
                    let want = check_ok[seq[step]];
                    if *ok != want {
                        let prev = if step > 0 { wsrc[seq[step - 1]].0 } else { "initial" };
                        acc.violation(format!("C07/watch-recheck-differs-from-check/{}/after/{}", wsrc[seq[step]].0, prev), format!("`lace watch` re-check of {} reported {} but `lace check` reports {} (saves so far: {:?})", wsrc[seq[step]].0, if *ok { "success" } else { "an error" }, if want { "success" } else { "an error" }, seq[..=step].iter().map(|i| wsrc[*i].0).collect::<Vec<_>>()), json!({"watch": true, "sequence": seq, "names": seq.iter().map(|i| wsrc[*i].0).collect::<Vec<_>>(), "contents": seq.iter().map(|i| wsrc[*i].1).collect::<Vec<_>>()}));
                        return;
                    }
                }
                acc.nontrivial();
                acc.gate("watch-rechecks-observed");
                acc.outcome(format!("watch/len{}/last-{}", seq.len(), if check_ok[*seq.last().unwrap()] { "ok" } else { "error" }));
            }
        }
    });
    for p in parts {
        acc.merge(p);
    }
    // Part C: saves that keep the file's modification time (cp -p, rsync -t, a checkout): every
    // ordered pair of contents on which `lace check` gives different verdicts. A save that
    // produces no re-check is a violation only if the same content saved again with a fresh time
    // stamp does produce one (the watcher is alive and went by the time stamp).
    let pairs: Vec<Vec<usize>> = (0..k).flat_map(|a| (0..k).map(move |b| vec![a, b])).filter(|p| check_ok[p[0]] != check_ok[p[1]]).collect();
    let parts = pooled(None, pairs.len(), 1, Acc::new, |acc, pi| {
        let seq = &pairs[pi];
        acc.eval("watch-same-timestamp");
        let case = json!({"watch": true, "same_timestamp": true, "sequence": seq, "names": seq.iter().map(|i| wsrc[*i].0).collect::<Vec<_>>(), "contents": seq.iter().map(|i| wsrc[*i].1).collect::<Vec<_>>()});
        match watch_sequence_mode(&lace, 100_000 + pi, seq, &wsrc, true) {
            WatchOutcome::Unobserved => acc.skip("watch event not observed in time (inconclusive)"),
            WatchOutcome::IgnoredSave { step } => {
                acc.violation("C07/watch-ignores-save-with-unchanged-timestamp", format!("`lace watch` did not re-check the save of {} (modification time put back to that of the previous save) but did re-check the same content saved again with a fresh time stamp: what it shows for that file is the verdict of the previous content, `lace check` says {}", wsrc[seq[step]].0, if check_ok[seq[step]] { "success" } else { "an error" }), case);
            }
            WatchOutcome::Verdicts(verdicts) => {
                for (step, ok) in verdicts.iter().enumerate() {
                    if *ok != check_ok[seq[step]] {
                        acc.violation(format!("C07/watch-recheck-differs-from-check/{}/same-timestamp", wsrc[seq[step]].0), format!("`lace watch` re-check of {} (time stamp kept) reported {} but `lace check` reports {}", wsrc[seq[step]].0, if *ok { "success" } else { "an error" }, if check_ok[seq[step]] { "success" } else { "an error" }), case);
                        return;
                    }
                }
                acc.nontrivial();
                acc.gate("watch-same-timestamp-observed");
                acc.outcome("watch/same-timestamp/agree".to_string());
            }
        }
    });
    for p in parts {
        acc.merge(p);
    }
    finish(
        ctx,
        acc,
        Level { category: "model_checking", bfs: None },
        "exhaustive configuration enumeration against the real binary: every source of a 179-source corpus (valid seeds; lexer / parser / backpatch errors; for each of the 8 PC-relative kinds an out-of-range label reference one beyond the field limit, forwards and backwards, at every statement position 0..4, and the in-range neighbour; sources using push / pop / call / rets; programs ending around the top of user space and of memory; the straddling / inside pairs again in programs that do not fit in memory from their origin, with the references beyond the last word that fits) x feature setting {none, -f stack} x {check, compile, run}. Each run is classified success / diagnostic / crash; a crash is a violation; check success <=> compile success; compile success <=> run gets past assembling. Part B drives the real `lace watch`: every sequence of up to 2 (thorough 3) saves over 9 file contents (valid; valid with an in-range reference on the statement where another content has an out-of-range one; undefined label after labels were recorded; valid with the same label names elsewhere; using labels it does not define; lexer error; emission-only error), and after each save the verdict of the re-check must equal `lace check` on that content (an unobserved event is inconclusive). Part C: every ordered pair of contents with different `lace check` verdicts saved with the file's modification time put back to one fixed instant after each save; a save without a re-check counts only if the same content saved again with a fresh time stamp is re-checked. non-trivial = (source, flag) pairs on which the three commands agree + watch sequences whose every re-check agreed",
        true,
        &["all-accept", "all-reject", "emission-only-error-rejected-by-all"],
        &["`lace watch` is driven through the file system; inotify event timing is outside the claim: unobserved re-checks are counted as inconclusive"],
        json!({"check_accepts_feature_flag": check_has_flag, "sources": srcs.len()}),
    )
}

/// Run `lace watch` on a file, save each content of `seq` in turn, return the verdict (true =
/// success) of the last re-check after each save; `None` if an event was not observed.
fn watch_sequence(lace: &Lace, id: usize, seq: &[usize], wsrc: &[(&str, &str)]) -> Option<Vec<bool>> {
    match watch_sequence_mode(lace, id, seq, wsrc, false) {
        WatchOutcome::Verdicts(v) => Some(v),
        _ => None,
    }
}

enum WatchOutcome {
    Verdicts(Vec<bool>),
    /// an event was not observed in time (inconclusive)
    Unobserved,
    /// a save whose modification time was put back to that of the previous save produced no
    /// re-check, while the same content saved again with a fresh time stamp did: the watcher is
    /// alive and ignores saves by time stamp
    IgnoredSave { step: usize },
}

/// `pin`: after every save the file's modification time is set to one fixed instant (what
/// `cp -p`, `rsync -t` or a version-control checkout do).
fn watch_sequence_mode(lace: &Lace, id: usize, seq: &[usize], wsrc: &[(&str, &str)], pin: bool) -> WatchOutcome {
    match watch_sequence_inner(lace, id, seq, wsrc, pin) {
        Some(o) => o,
        None => WatchOutcome::Unobserved,
    }
}

fn watch_sequence_inner(lace: &Lace, id: usize, seq: &[usize], wsrc: &[(&str, &str)], pin: bool) -> Option<WatchOutcome> {
    use std::io::Read;
    use std::sync::{Arc, Mutex};
    use std::time::{Duration, Instant};
    let dir = lace.cwd.join(format!("watch{id}"));
    let _ = std::fs::create_dir_all(&dir);
    let file = dir.join("w.asm");
    std::fs::write(&file, "halt\n").ok()?;
    let fixed = std::time::UNIX_EPOCH + Duration::from_secs(1_000_000_000);
    let pin_now = |f: &std::path::Path| {
        if let Ok(h) = std::fs::OpenOptions::new().write(true).open(f) {
            let _ = h.set_modified(fixed);
        }
    };
    if pin {
        pin_now(&file);
    }
    let mut child = std::process::Command::new(&lace.bin)
        .args(["watch", "w.asm"])
        .current_dir(&dir)
        .env_clear()
        .env("NO_COLOR", "1")
        .env("HOME", &dir)
        .stdin(std::process::Stdio::null())
        .stdout(std::process::Stdio::piped())
        .stderr(std::process::Stdio::null())
        .spawn()
        .ok()?;
    let buf: Arc<Mutex<Vec<u8>>> = Arc::new(Mutex::new(Vec::new()));
    let mut out = child.stdout.take()?;
    let b2 = buf.clone();
    let reader = std::thread::spawn(move || {
        let mut chunk = [0u8; 4096];
        while let Ok(n) = out.read(&mut chunk) {
            if n == 0 {
                break;
            }
            b2.lock().unwrap().extend_from_slice(&chunk[..n]);
        }
    });
    let text = |b: &Arc<Mutex<Vec<u8>>>| String::from_utf8_lossy(&b.lock().unwrap()).into_owned();
    // wait for the watcher to be up
    let start = Instant::now();
    while !text(&buf).contains("CTRL+C") && start.elapsed() < Duration::from_secs(5) {
        std::thread::sleep(Duration::from_millis(20));
    }
    std::thread::sleep(Duration::from_millis(300));
    let mut verdicts = Vec::new();
    let mut ok_all = true;
    for (step, s) in seq.iter().enumerate() {
        let mut before = text(&buf).len();
        if std::fs::write(&file, wsrc[*s].1).is_err() {
            ok_all = false;
            break;
        }
        if pin {
            pin_now(&file);
        }
        let mut control_done = false;
        'attempt: loop {
        // wait for a re-check to appear and for the output to go quiet
        let t0 = Instant::now();
        let mut last_len = before;
        let mut quiet_since = Instant::now();
        let mut seen = false;
        loop {
            std::thread::sleep(Duration::from_millis(50));
            let now = text(&buf);
            if now.len() != last_len {
                last_len = now.len();
                quiet_since = Instant::now();
            }
            let new = &now[before.min(now.len())..];
            let complete = new.contains("Re-checking") && (new.contains("Success") || new.contains("Error") || new.contains('×'));
            if complete && quiet_since.elapsed() > Duration::from_millis(900) {
                seen = true;
                break;
            }
            if t0.elapsed() > Duration::from_secs(8) {
                break;
            }
        }
        if !seen && pin && !control_done {
            // control: the same content once more, this time with a fresh time stamp
            control_done = true;
            before = text(&buf).len();
            if std::fs::write(&file, wsrc[*s].1).is_err() {
                ok_all = false;
                break 'attempt;
            }
            continue 'attempt;
        }
        if !seen {
            ok_all = false;
            break 'attempt;
        }
        if control_done {
            // the pinned save was ignored, the control save was not
            let _ = child.kill();
            let _ = child.wait();
            let _ = reader.join();
            let _ = std::fs::remove_dir_all(&dir);
            return Some(WatchOutcome::IgnoredSave { step });
        }
        let now = text(&buf);
        let new = &now[before.min(now.len())..];
        // the last re-check of this save decides
        let last = new.rfind("Re-checking").map(|p| &new[p..]).unwrap_or(new);
        verdicts.push(last.contains("Success"));
        break 'attempt;
        }
        if !ok_all {
            break;
        }
    }
    let _ = child.kill();
    let _ = child.wait();
    let _ = reader.join();
    let _ = std::fs::remove_dir_all(&dir);
    if ok_all {
        Some(WatchOutcome::Verdicts(verdicts))
    } else {
        None
    }
}

pub fn replay(ctx: &Ctx, case: &Value) -> Option<Option<String>> {
    let lace = Lace::new(&ctx.lace_bin, &ctx.scratch);
    if case["watch"].as_bool() == Some(true) {
        let contents: Vec<String> = case["contents"].as_array()?.iter().map(|v| v.as_str().unwrap().to_string()).collect();
        let names: Vec<String> = case["names"].as_array()?.iter().map(|v| v.as_str().unwrap().to_string()).collect();
        let pairs: Vec<(&str, &str)> = names.iter().zip(contents.iter()).map(|(a, b)| (a.as_str(), b.as_str())).collect();
        let seq: Vec<usize> = (0..pairs.len()).collect();
        let verdicts = watch_sequence(&lace, 9999, &seq, &pairs);
        let checks: Vec<bool> = contents.iter().map(|t| {
            lace.write("rc.asm", t.as_bytes());
            lace.run(&["check", "rc.asm"], b"").status == 0
        }).collect();
        return Some(match verdicts {
            None => Some("watch events not observed (inconclusive)".into()),
            Some(v) => if v != checks { Some(format!("watch verdicts {v:?}, check verdicts {checks:?}")) } else { None },
        });
    }
    let srcs = sources();
    let s = srcs.iter().find(|s| Some(s.name.as_str()) == case["name"].as_str())?;
    lace.write("r.asm", s.text.as_bytes());
    let stack = case["stack_flag"].as_bool().unwrap_or(false);
    let flag: Vec<&str> = if stack { vec!["-f", "stack"] } else { vec![] };
    let mut a = vec!["compile", "r.asm", "r.lc3"];
    a.extend(&flag);
    let compile = lace.run(&a, b"");
    let check = lace.run(&["check", "r.asm"], b"");
    Some(Some(format!("check exits {}, compile exits {}", check.status, compile.status)))
}
