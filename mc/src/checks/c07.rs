//! C07 — check, compile and run agree on which sources are valid.

use crate::cli::Lace;
use crate::gen::programs::{far_label, seeds, RefKind, REF_KINDS};
use crate::isolate::pooled;
use crate::refmodel::asm::*;
use crate::report::{finish, Acc, Ctx, Level};
use serde_json::{json, Value};

pub struct Src {
    pub name: String,
    pub text: String,
    pub class: &'static str,
}

pub fn sources() -> Vec<Src> {
    let mut v = Vec::new();
    for (i, (p, stack)) in seeds().into_iter().enumerate() {
        v.push(Src { name: format!("seed{i}"), text: print_plain(&p), class: if stack { "valid-stack" } else { "valid" } });
    }
    for (i, t) in ["add r0 r0", ".bogus", "\"open", "lbl lbl add r0 r0 r0", "br nowhere", "x halt\nx halt", ".orig x3000\n.orig x3000\nhalt", "add r0 r0 #16", "é", "trap x100", ".fill", "ld r0"].iter().enumerate() {
        v.push(Src { name: format!("bad{i}"), text: t.to_string(), class: "early-error" });
    }
    // errors that only surface when words are emitted: out-of-range label reference of every
    // PC-relative kind at every statement position 0..=4, both signs
    for kind in REF_KINDS {
        let b = kind.bits();
        for sign in [1i64, -1] {
            let off = if sign > 0 { 1i64 << (b - 1) } else { -(1i64 << (b - 1)) - 1 };
            for pos in 0..=4usize {
                let Some(core) = far_label(kind, off) else { continue };
                let mut p = Program::default();
                // `pos` filler statements in front (they do not change the distance)
                for _ in 0..pos {
                    p.push(None, Stmt::Add(1, 1, Src2::Reg(1)));
                }
                p.items.extend(core.items);
                v.push(Src { name: format!("far-{}-{}-{}", kind.name(), if sign > 0 { "fwd" } else { "back" }, pos), text: print_plain(&p), class: if kind == RefKind::Call { "emission-error-stack" } else { "emission-error" } });
            }
            // in range by one: must be accepted by all three
            let okoff = if sign > 0 { (1i64 << (b - 1)) - 1 } else { -(1i64 << (b - 1)) };
            if let Some(p) = far_label(kind, okoff) {
                v.push(Src { name: format!("near-{}-{}", kind.name(), if sign > 0 { "fwd" } else { "back" }), text: print_plain(&p), class: if kind == RefKind::Call { "valid-stack" } else { "valid" } });
            }
        }
    }
    for (i, t) in ["push r0\nhalt", "pop r1\nhalt", "f rets\ncall f", "rets", "PUSH R0", "Call x\nx rets"].iter().enumerate() {
        v.push(Src { name: format!("stack{i}"), text: t.to_string(), class: "valid-stack" });
    }
    v
}

pub fn run(ctx: &Ctx) -> i32 {
    let lace = Lace::new(&ctx.lace_bin, &ctx.scratch);
    let srcs = sources();
    // does `check` accept a feature flag?
    lace.write("probe.asm", b"halt\n");
    let probe = lace.run(&["check", "probe.asm", "-f", "stack"], b"");
    let check_has_flag = probe.status != 2;
    let parts = pooled(None, srcs.len() * 2, 1, Acc::new, |acc, k| {
        let s = &srcs[k / 2];
        let stack = k % 2 == 1;
        acc.eval("source-x-flag");
        let file = format!("{}-{}.asm", s.name, stack as u8);
        lace.write(&file, s.text.as_bytes());
        let flag: Vec<&str> = if stack { vec!["-f", "stack"] } else { vec![] };
        let out = format!("{}-{}.lc3", s.name, stack as u8);
        let mut a_compile = vec!["compile", file.as_str(), out.as_str()];
        a_compile.extend(&flag);
        let mut a_run = vec!["run", file.as_str(), "--minimal"];
        a_run.extend(&flag);
        let compile = lace.run(&a_compile, b"");
        let run = lace.run(&a_run, b"");
        let check = if stack && !check_has_flag {
            None
        } else {
            let mut a = vec!["check", file.as_str()];
            if stack {
                a.extend(&flag);
            }
            Some(lace.run(&a, b""))
        };
        let _ = std::fs::remove_file(lace.cwd.join(&file));
        let _ = std::fs::remove_file(lace.cwd.join(&out));
        let case = json!({"source": if s.text.len() < 3000 { json!(s.text) } else { Value::Null }, "name": s.name, "class": s.class, "stack_flag": stack, "check": check.as_ref().map(|c| c.status), "compile": compile.status, "run": run.status});
        for (r, what) in [(Some(&compile), "compile"), (Some(&run), "run"), (check.as_ref(), "check")] {
            if let Some(r) = r {
                if r.class() == "crash" || r.class() == "timeout" {
                    acc.violation(format!("C07/{what}/crash/{}", s.class), format!("`lace {what}` on {} ({}) crashed with status {}: {}", s.name, s.class, r.status, r.err().lines().find(|l| l.contains("panicked")).unwrap_or("")), case.clone());
                    return;
                }
            }
        }
        // `run` judged only on assembling: a valid program may still exit non-zero at run time.
        // The assembling verdict of `run` is visible in its stdout: it prints "Running" only after
        // a successful assembly.
        let run_assembled = run.out().contains("Running");
        let compile_ok = compile.status == 0;
        if let Some(c) = &check {
            let check_ok = c.status == 0;
            if check_ok && !compile_ok {
                acc.violation(format!("C07/check-accepts-what-compile-rejects/{}", s.class), format!("`lace check` reports success on {} but `lace compile` rejects it: {}", s.name, compile.err().lines().find(|l| !l.trim().is_empty()).unwrap_or("")), case);
                return;
            }
            if !check_ok && compile_ok {
                acc.violation(format!("C07/check-rejects-what-compile-accepts/{}", s.class), format!("`lace check` rejects {} but `lace compile` accepts it", s.name), case);
                return;
            }
        } else {
            acc.skip("`lace check` has no feature flag: stack setting not checkable for check");
        }
        if compile_ok != run_assembled {
            acc.violation(format!("C07/run-and-compile-disagree/{}", s.class), format!("compile {} but run {} for {}", if compile_ok { "accepts" } else { "rejects" }, if run_assembled { "assembles it" } else { "rejects it" }, s.name), case);
            return;
        }
        acc.nontrivial();
        acc.gate(if compile_ok { "all-accept" } else { "all-reject" });
        if s.class.starts_with("emission-error") && !compile_ok {
            acc.gate("emission-only-error-rejected-by-all");
        }
        acc.outcome(format!("{}/{}/{}", s.class, if stack { "stack" } else { "nostack" }, if compile_ok { "accept" } else { "reject" }));
        if k % 23 == 0 {
            acc.sample(format!("{k}"), json!({"name": s.name, "class": s.class, "stack_flag": stack, "check": check.as_ref().map(|c| c.status), "compile": compile.status, "run": run.status}));
        }
    });
    let acc = Acc::merge_all(parts);
    finish(
        ctx,
        acc,
        Level { category: "model_checking", bfs: None },
        "exhaustive configuration enumeration against the real binary: every source of a 140-source corpus (valid seeds; lexer / parser / backpatch errors; for each of the 8 PC-relative kinds an out-of-range label reference one beyond the field limit, forwards and backwards, at every statement position 0..4, and the in-range neighbour; sources using push / pop / call / rets) x feature setting {none, -f stack} x {check, compile, run}. Each run is classified success / diagnostic / crash; a crash is a violation; check success <=> compile success; compile success <=> run gets past assembling. non-trivial = (source, flag) pairs on which the three commands agree",
        true,
        &["all-accept", "all-reject", "emission-only-error-rejected-by-all"],
        &["`lace watch` re-checks run the same code path as `lace check`; its event timing is outside the claim"],
        json!({"check_accepts_feature_flag": check_has_flag, "sources": srcs.len()}),
    )
}

pub fn replay(ctx: &Ctx, case: &Value) -> Option<Option<String>> {
    let lace = Lace::new(&ctx.lace_bin, &ctx.scratch);
    let srcs = sources();
    let s = srcs.iter().find(|s| Some(s.name.as_str()) == case["name"].as_str())?;
    lace.write("r.asm", s.text.as_bytes());
    let stack = case["stack_flag"].as_bool().unwrap_or(false);
    let flag: Vec<&str> = if stack { vec!["-f", "stack"] } else { vec![] };
    let mut a = vec!["compile", "r.asm", "r.lc3"];
    a.extend(&flag);
    let compile = lace.run(&a, b"");
    let check = lace.run(&["check", "r.asm"], b"");
    Some(Some(format!("check exits {}, compile exits {}", check.status, compile.status)))
}
