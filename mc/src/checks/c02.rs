//! C02 — every instruction word executes as the ISA prescribes.

use crate::cli::{be_bytes, Lace};
use crate::isolate::{guard, pooled, Env, Stop, Stopped};
use crate::refmodel::vm::{End, Io, Machine, Variant};
use crate::report::{finish, Acc, Ctx, Level, Tier};
use crate::session::snapshot;
use lace::RunEnvironment;
use serde_json::{json, Value};

fn pattern(a: usize) -> u16 {
    // injective, never equal to the address, low byte zero only when a & 0xFF == 0x5A
    (a as u16) ^ 0x5A5A
}

pub fn op_class(w: u16) -> String {
    match w >> 12 {
        0x0 => format!("BR{}{}{}", if w & 0x800 != 0 { "n" } else { "" }, if w & 0x400 != 0 { "z" } else { "" }, if w & 0x200 != 0 { "p" } else { "" }),
        0x1 => if w & 0x20 != 0 { "ADD-imm".into() } else { "ADD-reg".into() },
        0x2 => "LD".into(),
        0x3 => "ST".into(),
        0x4 => if w & 0x800 != 0 { "JSR".into() } else { "JSRR".into() },
        0x5 => if w & 0x20 != 0 { "AND-imm".into() } else { "AND-reg".into() },
        0x6 => "LDR".into(),
        0x7 => "STR".into(),
        0x8 => "RTI".into(),
        0x9 => "NOT".into(),
        0xA => "LDI".into(),
        0xB => "STI".into(),
        0xC => "JMP".into(),
        0xD => match (w >> 10) & 3 { 0 => "POP".into(), 1 => "PUSH".into(), 2 => "RETS".into(), _ => "CALL".into() },
        0xE => "LEA".into(),
        _ => match w & 0xFF {
            0x20 => "TRAP-GETC".into(),
            0x21 => "TRAP-OUT".into(),
            0x22 => "TRAP-PUTS".into(),
            0x23 => "TRAP-IN".into(),
            0x24 => "TRAP-PUTSP".into(),
            0x25 => "TRAP-HALT".into(),
            0x26 => "TRAP-PUTN".into(),
            0x27 => "TRAP-REG".into(),
            _ => "TRAP-unknown".into(),
        },
    }
}

#[derive(Debug, Clone)]
pub struct Setup {
    pub r: [u16; 8],
    pub pc: u16,
    pub cc: u8,
    pub memset: Vec<(u16, u16)>,
}

const BASE_REGS: [u16; 8] = [0x1110, 0x2221, 0x3332, 0x4443, 0x5554, 0x6665, 0x7776, 0xFDFF];

pub fn values(tier: Tier) -> Vec<u16> {
    match tier {
        Tier::Quick => vec![0, 1, 0x7FFF, 0x8000, 0xFFFF, 0x3000],
        Tier::Thorough => vec![0, 1, 0x7FFF, 0x8000, 0xFFFF, 0x3000, 0xFDFF, 0xFE00, 0x1234, 0xABCD],
    }
}

const PCS: [u16; 8] = [0x0001, 0x3001, 0x7FFF, 0x8000, 0xFDFF, 0xFE00, 0xFFFF, 0x0000];

/// The covering state family for one word.
pub fn family(w: u16, tier: Tier) -> Vec<Setup> {
    let v = values(tier);
    let sr1 = ((w >> 6) & 7) as usize;
    let sr2 = (w & 7) as usize;
    let dr = ((w >> 9) & 7) as usize;
    let base = Setup { r: BASE_REGS, pc: 0x3001, cc: 0b100, memset: vec![] };
    let mut out = Vec::new();
    match w >> 12 {
        0x0 => {
            for cc in [0, 0b100, 0b010, 0b001] {
                for pc in PCS {
                    out.push(Setup { pc, cc, ..base.clone() });
                }
            }
        }
        0x1 | 0x5 => {
            if w & 0x20 == 0 {
                for a in &v {
                    for b in &v {
                        let mut s = base.clone();
                        s.r[sr1] = *a;
                        s.r[sr2] = *b; // when sr1 == sr2 the second assignment wins: both operands equal
                        s.cc = 0;
                        out.push(s);
                    }
                }
            } else {
                for a in &v {
                    let mut s = base.clone();
                    s.r[sr1] = *a;
                    out.push(s);
                }
            }
        }
        0x9 | 0xC | 0x4 if w >> 12 != 0x4 || w & 0x800 == 0 => {
            for a in &v {
                let mut s = base.clone();
                s.r[sr1] = *a;
                s.cc = if w >> 12 == 0x9 { 0 } else { 0b010 };
                out.push(s);
            }
            if w >> 12 == 0x4 {
                // R7 coincidences with different PCs
                for pc in PCS {
                    out.push(Setup { pc, ..base.clone() });
                }
            }
        }
        0x4 => {
            for pc in PCS {
                out.push(Setup { pc, cc: 0b001, ..base.clone() });
            }
        }
        0x2 | 0x3 | 0xE => {
            for pc in PCS {
                out.push(Setup { pc, cc: 0, ..base.clone() });
            }
            if w >> 12 == 0x3 {
                for a in &v {
                    let mut s = base.clone();
                    s.r[dr] = *a;
                    out.push(s);
                }
            }
        }
        0xA | 0xB => {
            for pc in PCS {
                out.push(Setup { pc, cc: 0, ..base.clone() });
                // pointer cell holds every covering value
                let cell = pc.wrapping_add(crate::refmodel::vm::sext(w, 9));
                for p in &v {
                    out.push(Setup { pc, cc: 0b001, memset: vec![(cell, *p)], ..base.clone() });
                }
            }
        }
        0x6 | 0x7 => {
            for a in &v {
                let mut s = base.clone();
                s.r[sr1] = *a;
                s.cc = 0;
                out.push(s);
            }
        }
        0xD => {
            for a in &v {
                let mut s = base.clone();
                s.r[7] = *a;
                out.push(s.clone());
                for pc in [0x0000u16, 0x7FFF, 0xFFFF] {
                    out.push(Setup { pc, ..s.clone() });
                }
            }
            // popped value / return address on the stack covers the value set too
            for p in &v {
                out.push(Setup { memset: vec![(0xFDFF, *p)], ..base.clone() });
            }
        }
        0x8 => {}
        _ => {
            // TRAP: R0 covers the value set (OUT / PUTS / PUTSP / PUTN), R7 a non-default value
            for a in &v {
                let mut s = base.clone();
                s.r[0] = *a;
                out.push(s);
            }
            let mut s = base.clone();
            s.r[7] = 0x1234;
            s.cc = 0;
            out.push(s);
            // strings: an odd-length packed string, a string with a zero high byte in the middle
            let mut s = base.clone();
            s.r[0] = 0x4000;
            s.memset = vec![(0x4000, 0x6261), (0x4001, 0x0063), (0x4002, 0x0000)];
            out.push(s);
            let mut s = base.clone();
            s.r[0] = 0x4000;
            s.memset = vec![(0x4000, 0x0041), (0x4001, 0x4342), (0x4002, 0x00E9), (0x4003, 0x0000)];
            out.push(s);
            // a word with a zero low byte and a character in the high byte, first and in the middle
            let mut s = base.clone();
            s.r[0] = 0x4000;
            s.memset = vec![(0x4000, 0x5800), (0x4001, 0x4241), (0x4002, 0x5900), (0x4003, 0x0043), (0x4004, 0x0000)];
            out.push(s);
            // OUT: every byte value, with and without garbage in the high byte
            if w & 0xFF == 0x21 {
                for b in 0..=255u16 {
                    for hi in [0x0000u16, 0x1200] {
                        let mut s = base.clone();
                        s.r[0] = hi | b;
                        out.push(s);
                    }
                }
            }
            // REG prints the condition code: all four values
            if w & 0xFF == 0x27 {
                for cc in [0u8, 0b100, 0b010, 0b001] {
                    out.push(Setup { cc, pc: 0xABCD, ..base.clone() });
                }
            }
            // PUTN: digit-count boundaries
            if w & 0xFF == 0x26 {
                for v in [9u16, 10, 99, 100, 999, 1000, 9999, 10000, 32767] {
                    let mut s = base.clone();
                    s.r[0] = v;
                    out.push(s);
                }
            }
            // PUTS / PUTSP: strings made of every byte value 1..=255 (one per word / packed)
            if w & 0xFF == 0x22 || w & 0xFF == 0x24 {
                for chunk in 0..4u16 {
                    let mut s = base.clone();
                    s.r[0] = 0x5000;
                    let mut m = Vec::new();
                    for k in 0..64u16 {
                        let b = chunk * 64 + k;
                        let word = if w & 0xFF == 0x22 { if b == 0 { 0x0100 | 0x41 } else { b | 0x3300 } } else { ((255 - b) << 8) | if b == 0 { 0x41 } else { b } };
                        m.push((0x5000 + k, word));
                    }
                    m.push((0x5040, 0));
                    s.memset = m;
                    out.push(s);
                }
            }
        }
    }
    out
}

struct Rig {
    env: RunEnvironment,
    reference: Machine,
}

fn new_rig() -> Rig {
    let mut env = RunEnvironment::from_raw(&[0x3000]).expect("load");
    let mem = env.verif_mem_mut();
    for a in 0..65536 {
        mem[a] = pattern(a);
    }
    let reference = snapshot(&env);
    Rig { env, reference }
}

#[derive(Debug)]
pub struct Outcome {
    sig: String,
    what: String,
}

/// Execute `w` on the real machine and the reference from the same state; compare everything.
fn exec_one(rig: &mut Rig, w: u16, s: &Setup, stack: bool, acc: &mut Acc) -> Option<Outcome> {
    // set up both sides
    for (a, v) in &s.memset {
        rig.env.verif_mem_mut()[*a as usize] = *v;
        rig.reference.mem[*a as usize] = *v;
    }
    for i in 0..8 {
        rig.env.verif_set_reg(i, s.r[i]);
    }
    rig.env.verif_set_pc(s.pc);
    rig.env.verif_set_cc(s.cc);
    rig.reference.r = s.r;
    rig.reference.pc = s.pc;
    rig.reference.cc = s.cc;
    let before = (s.r, s.pc, s.cc);

    let _ = lace::verif::take_normal();
    let real_end = guard(|| rig.env.verif_execute(w));
    let real_out = lace::verif::take_normal();

    // reference under every variant of the unspecified facets; accept any
    let mut verdict: Option<Outcome> = None;
    let mut any_ok = false;
    let pristine = rig.reference.clone();
    let mut chosen: Option<Machine> = None;
    let variants: &[Variant] = match w >> 12 {
        0xE => &[Variant::ALL[0], Variant::ALL[2]],
        0x4 if w & 0x800 == 0 && (w >> 6) & 7 == 7 => &[Variant::ALL[0], Variant::ALL[1]],
        _ => &Variant::ALL[0..1],
    };
    for var in variants {
        let mut m = pristine.clone();
        let mut io = Io::new(&[]);
        let end = m.step(w, stack, *var, &mut io);
        let v = compare(&rig.env, &m, end, &real_end, &io, &real_out, before, w);
        match v {
            Cmp::Agree => {
                any_ok = true;
                chosen = Some(m);
                break;
            }
            Cmp::NotJudged(why) => {
                acc.skip(why);
                any_ok = true;
                chosen = Some(m);
                break;
            }
            Cmp::Differ(o) => {
                if verdict.is_none() {
                    verdict = Some(o);
                    chosen = Some(m);
                }
            }
        }
    }
    // restore: bring both memories back to the pattern
    let after = chosen.unwrap_or(pristine);
    let mut dirty: Vec<usize> = s.memset.iter().map(|(a, _)| *a as usize).collect();
    if after.mem[..] != rig.reference.mem[..] {
        for a in 0..65536 {
            if after.mem[a] != rig.reference.mem[a] {
                dirty.push(a);
            }
        }
    }
    let real_mem_differs = rig.env.verif_mem()[..] != after.mem[..];
    if real_mem_differs {
        let mem = rig.env.verif_mem_mut();
        for a in 0..65536 {
            mem[a] = pattern(a);
        }
    }
    for a in dirty {
        rig.env.verif_mem_mut()[a] = pattern(a);
        rig.reference.mem[a] = pattern(a);
    }
    if any_ok {
        None
    } else {
        verdict
    }
}

enum Cmp {
    Agree,
    NotJudged(&'static str),
    Differ(Outcome),
}

#[allow(clippy::too_many_arguments)]
fn compare(env: &RunEnvironment, m: &Machine, end: End, real_end: &Result<(), Stopped>, io: &Io, real_out: &str, before: ([u16; 8], u16, u8), w: u16) -> Cmp {
    let class = op_class(w);
    match (end, real_end) {
        (End::Unspecified, _) => return Cmp::NotJudged("RTI is documented as unimplemented"),
        (End::Exit(code), Err(Stopped::Stop(Stop::Exit(c)))) => {
            if *c != code {
                return Cmp::Differ(Outcome { sig: format!("exec/{class}/wrong-exit-status"), what: format!("word x{w:04X}: stopped with exit status {c}, documented status is {code}") });
            }
            // nothing may have been executed
            if env.verif_regs() != before.0 || env.verif_pc() != before.1 || env.verif_cc() != before.2 || env.verif_mem()[..] != m.mem[..] || !real_out.is_empty() {
                return Cmp::Differ(Outcome { sig: format!("exec/{class}/state-changed-before-exit"), what: format!("word x{w:04X}: machine state or output changed although the instruction must stop the machine") });
            }
            return Cmp::Agree;
        }
        (End::Exit(code), other) => {
            return Cmp::Differ(Outcome { sig: format!("exec/{class}/did-not-stop"), what: format!("word x{w:04X}: must stop the machine with status {code}, but {}", match other { Ok(()) => "executed".to_string(), Err(s) => s.short() }) });
        }
        (End::Ok, Err(stopped)) => {
            return Cmp::Differ(Outcome { sig: format!("exec/{class}/{}", match stopped { Stopped::Panic { .. } => format!("panic/{}", stopped.panic_site()), Stopped::Stop(s) => format!("stopped-{s:?}") }), what: format!("word x{w:04X} with R={:04x?} PC={:04x}: {}", before.0, before.1, stopped.short()) });
        }
        (End::Ok, Ok(())) => {}
    }
    let regs = env.verif_regs();
    if regs != m.r {
        let which = (0..8).find(|i| regs[*i] != m.r[*i]).unwrap();
        return Cmp::Differ(Outcome { sig: format!("exec/{class}/reg"), what: format!("word x{w:04X} from R={:04x?} PC={:04x} CC={:03b}: R{which}={:04x}, ISA says {:04x}", before.0, before.1, before.2, regs[which], m.r[which]) });
    }
    if env.verif_pc() != m.pc {
        return Cmp::Differ(Outcome { sig: format!("exec/{class}/pc"), what: format!("word x{w:04X} from R={:04x?} PC={:04x} CC={:03b}: PC={:04x}, ISA says {:04x}", before.0, before.1, before.2, env.verif_pc(), m.pc) });
    }
    if env.verif_cc() != m.cc {
        return Cmp::Differ(Outcome { sig: format!("exec/{class}/cc"), what: format!("word x{w:04X} from R={:04x?} PC={:04x} CC={:03b}: CC={:03b}, ISA says {:03b}", before.0, before.1, before.2, env.verif_cc(), m.cc) });
    }
    if env.verif_mem()[..] != m.mem[..] {
        let a = (0..65536).find(|a| env.verif_mem()[*a] != m.mem[*a]).unwrap();
        return Cmp::Differ(Outcome { sig: format!("exec/{class}/mem"), what: format!("word x{w:04X} from R={:04x?} PC={:04x}: mem[{a:04x}]={:04x}, ISA says {:04x}", before.0, before.1, env.verif_mem()[a], m.mem[a]) });
    }
    if io.out_unjudged {
        return Cmp::NotJudged("trap output in a corner the ISA/README leave open (zero low byte, PUTN >= x8000)");
    }
    if io.out.contains('\x1b') {
        return Cmp::NotJudged("ESC in program output under --minimal (documented colour stripping)");
    }
    if real_out.replace('\0', "") != io.out.replace('\0', "") {
        return Cmp::Differ(Outcome { sig: format!("exec/{class}/output"), what: format!("word x{w:04X} with R0={:04x}: printed {:?}, trap routine specifies {:?}", before.0[0], truncate(real_out), truncate(&io.out)) });
    }
    Cmp::Agree
}

fn truncate(s: &str) -> String {
    s.chars().take(24).collect()
}

fn case_json(w: u16, s: &Setup, stack: bool) -> Value {
    json!({"word": w, "word_hex": format!("x{w:04X}"), "class": op_class(w), "regs": s.r, "pc": s.pc, "cc": s.cc, "memset": s.memset, "stack_feature": stack, "memory": "mem[a] = a ^ x5A5A elsewhere"})
}

pub fn check_word(rig: &mut Rig, w: u16, stack: bool, tier: Tier, acc: &mut Acc) {
    let fam = family(w, tier);
    let class = op_class(w);
    for s in &fam {
        acc.eval(if stack { "words-x-states/stack-on" } else { "words-x-states/stack-off" });
        match exec_one(rig, w, s, stack, acc) {
            None => {
                acc.nontrivial();
                acc.gate(&format!("op-{:x}", w >> 12));
            }
            Some(o) => {
                acc.outcome(format!("violation:{}", o.sig));
                acc.violation(format!("C02/{}", o.sig), o.what, case_json(w, s, stack));
            }
        }
    }
    acc.outcome(format!("class/{class}"));
}

pub fn run(ctx: &Ctx) -> i32 {
    let tier = ctx.tier;
    let mut all = Acc::new();
    for stack in [false, true] {
        // 1024 blocks of 64 words
        let parts = pooled(Some(Env::new(stack)), 1024, 4, Acc::new, |acc, block| {
            lace::verif::arm(None);
            lace::set_minimal(true);
            let mut rig = new_rig();
            for k in 0..64u32 {
                let w = ((block as u32) << 6 | k) as u16;
                check_word(&mut rig, w, stack, tier, acc);
            }
            if block % 128 == 0 {
                let w = (block << 6) as u16;
                acc.sample(format!("{stack}/{block}"), json!({"word": format!("x{w:04X}"), "class": op_class(w), "states": family(w, tier).len(), "first_state": family(w, tier).first().map(|s| json!({"regs": s.r, "pc": s.pc, "cc": s.cc}))}));
            }
        });
        for p in parts {
            all.merge(p);
        }
    }
    // every PC for a representative word set (PC-relative address arithmetic modulo 2^16)
    let reps: Vec<u16> = vec![0x0FFF, 0x0E00, 0x0F00, 0x21FF, 0x2100, 0x3000, 0x31FF, 0x4FFF, 0x4C00, 0x4800, 0xA1FF, 0xA100, 0xB0FF, 0xB100, 0xE1FF, 0xE100, 0xDFFF, 0xDE00, 0xDC01, 0x4040];
    let pcs_stride = tier.pick(7, 1);
    let parts = pooled(Some(Env::new(true)), reps.len() * 64, 1, Acc::new, |acc, idx| {
        lace::verif::arm(None);
        lace::set_minimal(true);
        let w = reps[idx / 64];
        let slice = idx % 64;
        let mut rig = new_rig();
        let mut pc = (slice * 1024) as u32;
        let end = pc + 1024;
        while pc < end {
            if pc as usize % pcs_stride == 0 {
                let s = Setup { r: BASE_REGS, pc: pc as u16, cc: 0b001, memset: vec![] };
                acc.eval("representative-words-x-all-pcs");
                match exec_one(&mut rig, w, &s, true, acc) {
                    None => acc.nontrivial(),
                    Some(o) => {
                        acc.outcome(format!("violation:{}", o.sig));
                        acc.violation(format!("C02/{}", o.sig), o.what, case_json(w, &s, true));
                    }
                }
            }
            pc += 1;
        }
    });
    for p in parts {
        all.merge(p);
    }

    // The documented error exits, on the real binary: exit status, nothing printed by the program
    let lace = Lace::new(&ctx.lace_bin, &ctx.scratch);
    let mut cli_cases: Vec<(u16, bool)> = Vec::new();
    for v in 0..=255u16 {
        cli_cases.push((0xF000 | v, false));
    }
    let step = tier.pick(64, 1);
    let mut w = 0xD000u32;
    while w <= 0xDFFF {
        cli_cases.push((w as u16, false));
        w += step;
    }
    let results = crate::isolate::pooled(None, cli_cases.len(), 4, Acc::new, |acc, i| {
        let (w, stack) = cli_cases[i];
        let name = format!("w{i}.lc3");
        lace.write(&name, &be_bytes(&[0x3000, w]));
        let mut args = vec!["run", name.as_str(), "--minimal"];
        if stack {
            args.extend(["-f", "stack"]);
        }
        let run = lace.run(&args, b"A");
        acc.eval("cli-one-word-images");
        let mut m = Machine::load(&[0x3000, w]).unwrap();
        let mut io = Io::new(b"A");
        let r = crate::refmodel::vm::run(&mut m, stack, Variant::ALL[0], &mut io, 1000);
        let want = match r.end {
            crate::refmodel::vm::RunEnd::Normal => 0,
            crate::refmodel::vm::RunEnd::OutOfBounds => 0xEE,
            crate::refmodel::vm::RunEnd::Exit(c) => c,
            _ => -1,
        };
        if want < 0 {
            acc.skip("reference run unspecified");
        } else if run.status != want {
            let sig = format!("C02/cli/{}/exit-status", op_class(w));
            acc.violation(sig, format!("image [x3000, x{w:04X}]: exit status {} but documented {}", run.status, want), json!({"cli": true, "image": [0x3000, w], "stack_feature": stack, "expected_status": want, "stdin": "A"}));
        } else {
            acc.nontrivial();
            acc.outcome(format!("cli/status-{want}"));
            if want != 0 {
                acc.gate("cli-error-exit-seen");
                let out = crate::cli::program_output(&run.out()).unwrap_or_default();
                if !out.trim().is_empty() {
                    acc.violation(format!("C02/cli/{}/output-before-error-exit", op_class(w)), format!("image [x3000, x{w:04X}] printed {out:?} before its error exit"), json!({"cli": true, "image": [0x3000, w], "stack_feature": stack, "expected_status": want, "stdin": "A"}));
                }
            }
        }
        let _ = std::fs::remove_file(lace.cwd.join(&name));
    });
    for p in results {
        all.merge(p);
    }

    let gates: Vec<String> = (0..16).filter(|o| *o != 8).map(|o| format!("op-{o:x}")).collect();
    let mut gate_refs: Vec<&str> = gates.iter().map(|s| s.as_str()).collect();
    gate_refs.push("cli-error-exit-seen");
    finish(
        ctx,
        all,
        Level { category: "model_checking", bfs: None },
        "all 65,536 instruction words x a covering state family per decoded class (every register an instruction reads takes every value of the covering set {0,1,x7FFF,x8000,xFFFF,x3000[,xFDFF,xFE00,x1234,xABCD]}, pairs for two-source ALU words; 8 PCs incl. both ends of the address space for PC-relative words; all four condition codes incl. 'none' for BR; pointer cells and stack cells over the covering set; R7 over the covering set for stack instructions), under both feature-flag values; memory holds an injective pattern so a wrong address shows as a wrong value. After each execution of RunState::execute all registers, PC, CC, all 65,536 memory words and the teed program output are compared with the reference ISA step. Plus 20 representative PC-relative/stack words at every PC (stride 7 in quick), and the documented error exits as one-word images through the real binary. non-trivial = executions that agreed with the reference (distinct (word,state) pairs)",
        true,
        &gate_refs,
        &["reference VM (refmodel::vm) is the ISA; edition-dependent facets (LEA condition codes, JSRR R7 ordering) accept either edition", "RTI (documented unimplemented) not executed"],
        json!({"covering_values": values(tier)}),
    )
}

pub fn replay(ctx: &Ctx, case: &Value) -> Option<Option<String>> {
    if case["cli"].as_bool() == Some(true) {
        let img: Vec<u16> = case["image"].as_array()?.iter().map(|v| v.as_u64().unwrap() as u16).collect();
        let lace = Lace::new(&ctx.lace_bin, &ctx.scratch);
        lace.write("replay.lc3", &be_bytes(&img));
        let run = lace.run(&["run", "replay.lc3", "--minimal"], b"A");
        let want = case["expected_status"].as_i64()? as i32;
        return Some(if run.status != want { Some(format!("exit status {} expected {}", run.status, want)) } else { None });
    }
    let w = case["word"].as_u64()? as u16;
    let stack = case["stack_feature"].as_bool()?;
    let mut r = [0u16; 8];
    for i in 0..8 {
        r[i] = case["regs"][i].as_u64()? as u16;
    }
    let s = Setup { r, pc: case["pc"].as_u64()? as u16, cc: case["cc"].as_u64()? as u8, memset: case["memset"].as_array()?.iter().map(|p| (p[0].as_u64().unwrap() as u16, p[1].as_u64().unwrap() as u16)).collect() };
    let res = crate::isolate::fresh(Env::new(stack), || {
        let mut rig = new_rig();
        let mut acc = Acc::new();
        let a = exec_one(&mut rig, w, &s, stack, &mut acc).map(|o| format!("{}: {}", o.sig, o.what));
        let b = exec_one(&mut rig, w, &s, stack, &mut acc).map(|o| format!("{}: {}", o.sig, o.what));
        (a, b)
    });
    match res {
        Ok((a, b)) => Some(if a != b { Some("NONDETERMINISTIC".into()) } else { a }),
        Err(e) => Some(Some(e.short())),
    }
}
