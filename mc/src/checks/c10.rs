//! C10 — stepping commands execute exactly what they promise.
//! Explicit-state BFS over command histories; every transition runs the history on the real
//! debugger (script + `exit`) and on the reference debugger and compares the paused machines and
//! the number of instructions executed.

use super::dbgcommon::*;
use crate::bfs::{self, St};
use crate::isolate::Env;
use crate::refmodel::dbg::{Cmd, Loc};
use crate::report::{finish, Acc, Ctx, Level};
use serde_json::{json, Value};

pub fn alphabet(prog: &Prog) -> Vec<Action> {
    let mut v = vec![
        Action::of(Cmd::Step),
        Action::of(Cmd::StepInto(1)),
        Action::of(Cmd::StepInto(0)),
        Action::of(Cmd::StepInto(2)),
        Action::of(Cmd::StepInto(5)),
        Action::of(Cmd::StepInto(60000)),
        Action::of(Cmd::StepOut),
        Action::of(Cmd::Continue),
        Action::of(Cmd::Goto(Loc::Abs(prog.image.origin()))),
        Action::of(Cmd::MoveMem(Loc::PcOff(2), 0xF025)),
        Action::of(Cmd::MoveMem(Loc::PcOff(0), 0x1021)),
    ];
    // breakpoints at up to three interesting addresses of the program
    let mut addrs: Vec<u16> = Vec::new();
    for l in ["loop", "fwd", "back", "f", "g", "site", "done", "after", "spin"] {
        if prog.image.labels.iter().any(|(n, _)| n == l) {
            addrs.push(prog.addr_of(l));
        }
    }
    addrs.truncate(3);
    for a in addrs {
        v.push(Action::of(Cmd::BreakAdd(Loc::Abs(a))));
        v.push(Action::of(Cmd::BreakRemove(Loc::Abs(a))));
    }
    v
}

pub fn run(ctx: &Ctx) -> i32 {
    let _ = super::variant::measured();
    let progs = programs();
    let alphabets: Vec<Vec<Action>> = progs.iter().map(alphabet).collect();
    let depth = ctx.tier.pick(6, 9);
    let raw_depth = ctx.tier.pick(4, 5);
    let roots: Vec<St> = (0..progs.len()).map(|i| St { tag: i as u32, hist: vec![], digest: i as u64 }).collect();
    let step = |acc: &mut Acc, s: &St| -> Vec<St> {
        let i = s.tag as usize;
        product_step(acc, i, &progs[i], &alphabets[i], "c10", s, "C10", &|_, _, _, _| None)
    };
    let cfg = bfs::Config { max_depth: depth, dedup: true, state_cap: 3_000_000, wall_cap_s: ctx.tier.pick(45, 1200) };
    let (mut acc, stats) = bfs::explore(roots.clone(), &cfg, Some(Env::new(true)), step);
    let cfg_raw = bfs::Config { max_depth: raw_depth, dedup: false, state_cap: usize::MAX, wall_cap_s: ctx.tier.pick(45, 1200) };
    let (acc_raw, stats_raw) = bfs::explore(roots, &cfg_raw, Some(Env::new(true)), step);
    acc.merge(acc_raw);
    // long executions: (a) a subroutine of 196 613 instructions with 65 536 unpaired calls; (b) a
    // recursion 300 levels deep through one call site, stepped over from inside (more than 255
    // nested invocations below the stepped call)
    let long_progs = [linking_jumps(), deep_recursion(300)];
    let long_alphas: [Vec<Action>; 2] = [
        vec![Action::of(Cmd::Step), Action::of(Cmd::StepOut), Action::of(Cmd::Continue), Action::of(Cmd::StepInto(60000)), Action::of(Cmd::StepInto(2))],
        vec![Action::of(Cmd::Step), Action::of(Cmd::StepInto(4)), Action::of(Cmd::StepOut), Action::of(Cmd::StepInto(7)), Action::of(Cmd::Continue)],
    ];
    let mut long_hists: Vec<(usize, Vec<u8>)> = Vec::new();
    for (pi, alpha) in long_alphas.iter().enumerate() {
        for len in 1..=(if pi == 0 { 2usize } else { 3 }) {
            for idx in 0..crate::util::pow(alpha.len(), len) {
                long_hists.push((pi, crate::util::seq(idx, alpha.len(), len).iter().map(|x| *x as u8).collect()));
            }
        }
    }
    let parts = crate::isolate::pooled(Some(Env::new(true)), long_hists.len(), 1, Acc::new, |acc, i| {
        let (pi, hist) = &long_hists[i];
        let long = &long_progs[*pi];
        let actions: Vec<&Action> = hist.iter().map(|k| &long_alphas[*pi][*k as usize]).collect();
        acc.eval("long-subroutine");
        let case = json!({"long": true, "long_program": pi, "program": long.name, "source": long.text, "history": hist, "script": script_of(&actions, Tail::Exit)});
        let obs = match run_real_fuel(long, &actions, Tail::Exit, true, LONG_FUEL) {
            Ok(o) => o,
            Err((sig, what)) => {
                acc.violation(format!("C10/long/{sig}"), what, case);
                return;
            }
        };
        let (d, pauses) = run_ref_fuel(long, &actions, LONG_FUEL);
        match compare_paused(long, &actions, &obs, &d, &pauses) {
            Err(m) => acc.violation(format!("C10/long/{}", m.sig), m.what, case),
            Ok(_) => {
                acc.nontrivial();
                acc.outcome(format!("long/{}/{}/pc{:04x}", long.name, actions.iter().map(|a| cmd_kind(&a.cmd)).collect::<Vec<_>>().join("-"), obs.machine.pc));
                if *pi == 0 && d.total_executed > 65536 {
                    acc.gate("ran-past-65536-calls");
                }
            }
        }
    });
    for p in parts {
        acc.merge(p);
    }
    let transitions = stats.transitions + stats_raw.transitions + long_hists.len() as u64;
    finish(
        ctx,
        acc,
        Level { category: "model_checking", bfs: Some((stats.states, transitions, transitions, stats.max_depth)) },
        "explicit-state BFS over command histories (alphabet: step, step into {0,1,2,5,60000}, step out, continue, goto origin, break add/remove at up to three addresses) on 9 programs (counted loop, leaving user space upwards through a bare RET / downwards through a branch / to xFFFF through a jump, taken/untaken forward/backward branches, nested JSR/RET, recursion through one CALL site with RETS, HALT in the middle, JSRR + self-branch); every transition replays history+command+`exit` on the real debugger and on the reference debugger (product exploration) and compares registers, PC, CC, all memory, breakpoint set, program output and the number of instructions executed; states deduplicated on the digest of the paused product state (machine, breakpoints, current breakpoint); plus a raw (no merging) enumeration to a smaller depth; plus every history up to length 2 over {step, step out, continue, step into 60000, step into 2} on a subroutine that executes 65 536 unpaired JSRs (196 613 instructions; drives call-depth bookkeeping past 2^16), and every history up to length 3 over {step, step into 4, step out, step into 7, continue} on a CALL/RETS recursion 300 levels deep through one call site. non-trivial = transitions on which both sides agreed (distinct histories)",
        !stats.capped && !stats_raw.capped,
        &["paused-at-breakpoint", "paused-at-halt", "paused-outside-user-space", "stepped-over-subroutine", "loop-iteration-repeated", "command-refused", "ran-past-65536-calls"],
        &["reference debugger = DESIGN.md appendix A", "observation only at command boundaries (script + exit)"],
        json!({"depth": depth, "raw_depth": raw_depth, "dedup": {"states": stats.states, "transitions": stats.transitions, "per_level": stats.per_level, "capped": stats.capped}, "raw": {"transitions": stats_raw.transitions, "per_level": stats_raw.per_level}}),
    )
}

const LONG_FUEL: u64 = 3_000_000;

pub fn replay(_ctx: &Ctx, case: &Value) -> Option<Option<String>> {
    if case["long"].as_bool() == Some(true) {
        let pi = case["long_program"].as_u64().unwrap_or(0) as usize;
        let long = if pi == 0 { linking_jumps() } else { deep_recursion(300) };
        let long_alpha: Vec<Action> = if pi == 0 {
            vec![Action::of(Cmd::Step), Action::of(Cmd::StepOut), Action::of(Cmd::Continue), Action::of(Cmd::StepInto(60000)), Action::of(Cmd::StepInto(2))]
        } else {
            vec![Action::of(Cmd::Step), Action::of(Cmd::StepInto(4)), Action::of(Cmd::StepOut), Action::of(Cmd::StepInto(7)), Action::of(Cmd::Continue)]
        };
        let hist: Vec<u8> = case["history"].as_array()?.iter().map(|v| v.as_u64().unwrap() as u8).collect();
        let actions: Vec<&Action> = hist.iter().map(|k| &long_alpha[*k as usize]).collect();
        return Some(crate::isolate::confirm_fresh(|| {
            let obs = match run_real_fuel(&long, &actions, Tail::Exit, true, LONG_FUEL) {
                Ok(o) => o,
                Err((sig, what)) => return Some(format!("{sig}: {what}")),
            };
            let (d, pauses) = run_ref_fuel(&long, &actions, LONG_FUEL);
            compare_paused(&long, &actions, &obs, &d, &pauses).err().map(|m| format!("{}: {}", m.sig, m.what))
        }));
    }
    replay_history(case, &|p| alphabet(p))
}

/// Shared replayer for product checks that store (program name, history of action ids).
pub fn replay_history(case: &Value, alphabet_of: &dyn Fn(&Prog) -> Vec<Action>) -> Option<Option<String>> {
    let name = case["program"].as_str()?;
    let hist: Vec<u8> = case["history"].as_array()?.iter().map(|v| v.as_u64().unwrap() as u8).collect();
    let progs = programs();
    let prog = progs.iter().find(|p| p.name == name)?;
    let alpha = alphabet_of(prog);
    let actions: Vec<&Action> = hist.iter().map(|i| &alpha[*i as usize]).collect();
    let run = || -> Option<String> {
        crate::isolate::confirm_fresh(|| {
            let obs = match run_real(prog, &actions, Tail::Exit, true) {
                Ok(o) => o,
                Err((sig, what)) => return Some(format!("{sig}: {what}")),
            };
            let (d, pauses) = run_ref(prog, &actions);
            compare_paused(prog, &actions, &obs, &d, &pauses).err().map(|m| format!("{}: {}", m.sig, m.what))
        })
    };
    let a = run();
    let b = run();
    if a != b {
        return Some(Some("NONDETERMINISTIC".into()));
    }
    Some(a)
}
