//! C12 — reset restores the initial machine exactly.

use super::dbgcommon::*;
use crate::bfs::{self, St};
use crate::isolate::Env;
use crate::refmodel::asm::*;
use crate::refmodel::dbg::{Cmd, Loc};
use crate::report::{finish, Acc, Ctx, Level};
use crate::session::{machine_diff, machine_diff_kind, run_image, Ended};
use serde_json::{json, Value};

pub fn programs12() -> Vec<Prog> {
    let mut v = Vec::new();
    // self-modifying loop: overwrites its own ADD with another ADD, stores into data, pushes on the stack
    let mut p = Program::default();
    p.push(Some("first"), Stmt::Mem(PcRel::Ld, 0, lbl("patch")));
    p.push(None, Stmt::Mem(PcRel::St, 0, lbl("slot")));
    p.push(None, Stmt::Push(0));
    p.push(Some("slot"), Stmt::Add(3, 3, Src2::Imm(Lit::dec(1))));
    p.push(None, Stmt::Mem(PcRel::St, 3, lbl("data")));
    p.push(None, Stmt::Named(0x26, "putn"));
    p.push(Some("end"), Stmt::Named(0x25, "halt"));
    p.push(Some("patch"), Stmt::Fill(Lit::hex(0x16E7)));
    p.push(Some("data"), Stmt::Fill(Lit::hex(0x0000)));
    v.push(Prog::new("self-modifying", p, true));
    // plain loop at a non-default origin
    let mut p = Program::default();
    p.items.push(Item::Orig(Lit::hex(0x0400)));
    p.push(Some("first"), Stmt::Add(1, 1, Src2::Imm(Lit::dec(2))));
    p.push(Some("slot"), Stmt::Add(2, 2, Src2::Imm(Lit::dec(1))));
    p.push(None, Stmt::Add(1, 1, Src2::Imm(Lit::dec(-1))));
    p.push(None, Stmt::Br(0b001, "brp".into(), lbl("slot")));
    p.push(Some("end"), Stmt::Named(0x25, "halt"));
    p.push(Some("data"), Stmt::Fill(Lit::hex(0x0007)));
    v.push(Prog::new("loop-at-x0400", p, true));
    // stores outside [origin, xFE00): below the origin and above user space (the program may write
    // anywhere; reset must still restore all 65,536 words)
    let mut p = Program::default();
    p.push(Some("first"), Stmt::Mem(PcRel::Ld, 6, lbl("low")));
    p.push(None, Stmt::Str(6, 6, Lit::dec(0)));
    p.push(Some("slot"), Stmt::Mem(PcRel::Ld, 5, lbl("high")));
    p.push(None, Stmt::Str(5, 5, Lit::dec(1)));
    p.push(None, Stmt::Mem(PcRel::Sti, 5, lbl("low")));
    p.push(Some("end"), Stmt::Named(0x25, "halt"));
    p.push(Some("low"), Stmt::Fill(Lit::hex(0x2000)));
    p.push(Some("high"), Stmt::Fill(Lit::hex(0xFE10)));
    p.push(Some("data"), Stmt::Fill(Lit::hex(0x0000)));
    v.push(Prog::new("stores-outside-user-space", p, true));
    // loaded across xFE00: code in the last words of user space, data (and the implicit HALT)
    // above it - the saved initial state must hold those words too
    let mut p = Program::default();
    p.items.push(Item::Orig(Lit::hex(0xFDFB)));
    p.push(Some("first"), Stmt::Mem(PcRel::Lea, 0, lbl("data")));
    p.push(Some("slot"), Stmt::Named(0x22, "puts"));
    p.push(None, Stmt::Add(1, 1, Src2::Imm(Lit::dec(1))));
    p.push(Some("end"), Stmt::Named(0x25, "halt"));
    p.push(None, Stmt::Fill(Lit::hex(0x1234)));
    p.push(Some("data"), Stmt::Stringz("Hi".into()));
    v.push(Prog::new("loaded-across-xFE00", p, true));
    v
}

/// A loop storing its (non-zero) counter into `n` consecutive words from x4000 on: the number of
/// words a history dirties before `reset` is the parameter.
pub fn store_loop(n: u16) -> Prog {
    let mut p = Program::default();
    p.push(Some("first"), Stmt::Mem(PcRel::Ld, 1, lbl("count")));
    p.push(None, Stmt::Mem(PcRel::Ld, 2, lbl("base")));
    p.push(Some("slot"), Stmt::Str(1, 2, Lit::dec(0)));
    p.push(None, Stmt::Add(2, 2, Src2::Imm(Lit::dec(1))));
    p.push(None, Stmt::Add(1, 1, Src2::Imm(Lit::dec(-1))));
    p.push(None, Stmt::Br(0b101, "brnp".into(), lbl("slot")));
    p.push(Some("end"), Stmt::Named(0x25, "halt"));
    p.push(Some("count"), Stmt::Fill(Lit::hex(n)));
    p.push(Some("base"), Stmt::Fill(Lit::hex(0x4000)));
    p.push(Some("data"), Stmt::Fill(Lit::hex(0x0000)));
    Prog::new(Box::leak(format!("store-loop-{n}").into_boxed_str()), p, true)
}

/// Numbers of dirtied words: every power of two up to 2^15 and its neighbours, and all of
/// x4000..xFDFF.
pub fn store_counts() -> Vec<u16> {
    let mut v: Vec<u16> = Vec::new();
    for k in 0..=15u32 {
        for d in [-1i32, 0, 1] {
            let n = (1i32 << k) + d;
            if n >= 1 && n <= 0xBE00 && !v.contains(&(n as u16)) {
                v.push(n as u16);
            }
        }
    }
    v.push(0xBE00);
    v
}

const MANY_FUEL: u64 = 1_500_000;

/// The histories of the many-writes section, as scripts over {continue, reset}.
fn many_histories() -> Vec<Vec<Cmd>> {
    vec![
        vec![Cmd::Continue, Cmd::Reset],
        vec![Cmd::Continue, Cmd::Reset, Cmd::Reset],
        vec![Cmd::Continue, Cmd::Reset, Cmd::Continue, Cmd::Reset],
        vec![Cmd::StepInto(9), Cmd::Reset, Cmd::Continue, Cmd::Reset],
        vec![Cmd::Continue, Cmd::Reset, Cmd::StepInto(9), Cmd::Reset],
    ]
}

fn judge_many(n: u16, hi: usize) -> Result<(), Mismatch> {
    judge_small_menu(&store_loop(n), hi, "many-writes")
}

fn judge_small_menu(prog: &Prog, hi: usize, family: &str) -> Result<(), Mismatch> {
    let acts: Vec<Action> = many_histories()[hi].iter().cloned().map(Action::of).collect();
    let actions: Vec<&Action> = acts.iter().collect();
    let init = prog.reference().init;
    let r = run_real_fuel(prog, &actions, Tail::Exit, true, MANY_FUEL).map_err(|(sig, what)| Mismatch { sig: format!("{family}/{sig}"), what })?;
    if !matches!(r.ended, Ended::Returned) {
        return Err(Mismatch { sig: format!("{family}/session-ended"), what: format!("the session ended {:?} before `exit`", r.ended) });
    }
    if let Some(d) = machine_diff(&r.machine, &init) {
        return Err(Mismatch { sig: format!("{family}/not-initial/{}", machine_diff_kind(&r.machine, &init).unwrap_or("?")), what: format!("after a history on {} that ends in `reset` the machine differs from the one right after load: {d}", prog.name) });
    }
    // ... and the run after the reset behaves like a fresh one
    let q = run_real_fuel(prog, &actions, Tail::Quit, true, MANY_FUEL).map_err(|(sig, what)| Mismatch { sig: format!("{family}/{sig}"), what })?;
    let p = run_image(&prog.image.raw(), Env::new(true), MANY_FUEL).map_err(|e| Mismatch { sig: format!("{family}/plain-run"), what: format!("{e:?}") })?.map_err(|e| Mismatch { sig: format!("{family}/plain-run"), what: format!("{e:?}") })?;
    if q.ended != p.ended {
        return Err(Mismatch { sig: format!("{family}/run-after-reset/ends-differently"), what: format!("run after reset ended {:?}, a fresh run ends {:?}", q.ended, p.ended) });
    }
    if let Some(d) = machine_diff(&q.machine, &p.machine) {
        return Err(Mismatch { sig: format!("{family}/run-after-reset/{}", machine_diff_kind(&q.machine, &p.machine).unwrap_or("?")), what: format!("final machine of the run after reset differs from a fresh run: {d}") });
    }
    Ok(())
}

/// Programs with large images; judged under the small menu of histories (assembling them for every
/// transition of the BFS would take minutes).
pub fn big_image_programs() -> Vec<Prog> {
    let mut v = Vec::new();
    // an image with 8192 zero words in the middle and content behind them: the saved initial
    // state must hold what lies behind the zeros
    let mut p = Program::default();
    p.push(Some("first"), Stmt::Mem(PcRel::Ld, 0, lbl("addr")));
    p.push(Some("slot"), Stmt::Named(0x22, "puts"));
    p.push(Some("end"), Stmt::Named(0x25, "halt"));
    p.push(Some("addr"), Stmt::Fill(Lit::hex(0x5005)));
    p.push(Some("data"), Stmt::Fill(Lit::hex(0x0000)));
    p.push(None, Stmt::Blkw(Lit::dec(8192)));
    p.push(Some("msg"), Stmt::Stringz("behind".into()));
    v.push(Prog::new("zero-block-inside-image", p, true));
    // an image that fills memory exactly: the loader's implicit HALT is the word xFFFF, the last
    // one a copy of the machine has to carry
    let mut p = Program::default();
    p.push(Some("first"), Stmt::Mem(PcRel::Ldi, 0, lbl("ptr")));
    p.push(Some("slot"), Stmt::Named(0x26, "putn"));
    p.push(Some("end"), Stmt::Named(0x25, "halt"));
    p.push(Some("ptr"), Stmt::Fill(Lit::hex(0xFFFF)));
    p.push(Some("data"), Stmt::Blkw(Lit::hex(0xCFFB)));
    v.push(Prog::new("image-ends-at-xFFFF", p, true));
    v
}

fn judge_big(pi: usize, hi: usize) -> Result<(), Mismatch> {
    let progs = big_image_programs();
    judge_small_menu(&progs[pi], hi, "big-image")
}

pub fn alphabet(prog: &Prog) -> Vec<Action> {
    let orig = prog.image.origin();
    vec![
        Action::of(Cmd::Step),
        Action::of(Cmd::StepInto(3)),
        Action::of(Cmd::Continue),
        Action::of(Cmd::MoveReg(3, 0xBEEF)),
        Action::of(Cmd::MoveReg(7, 0x3100)),
        Action::of(Cmd::MoveMem(Loc::Label("slot".into(), 0), 0x1021)),
        Action::of(Cmd::MoveMem(Loc::Label("data".into(), 0), 0x4242)),
        Action::of(Cmd::MoveMem(Loc::Abs(0xFDFE), 0x7777)),
        Action::of(Cmd::MoveMem(Loc::Abs(orig.wrapping_sub(1)), 0x6666)),
        Action::of(Cmd::Goto(Loc::Label("slot".into(), 0))),
        Action::eval("st r3 data", None),
        Action::eval("str r7 r7 #0", None),
        Action::of(Cmd::MoveReg(6, 0x1FFF)),
        Action::eval("str r3 r6 #1", None),
        Action::eval("str r6 r6 #-32", None),
        // the two ends of memory in one history (x0000 through the wrap-around of xFFFF + 1)
        Action::of(Cmd::MoveReg(6, 0xFFFF)),
        Action::eval("str r3 r6 #0", None),
        Action::of(Cmd::BreakAdd(Loc::Label("slot".into(), 1))),
        Action::of(Cmd::Reset),
    ]
}

pub fn run(ctx: &Ctx) -> i32 {
    let _ = super::variant::measured();
    let progs = programs12();
    let alphabets: Vec<Vec<Action>> = progs.iter().map(alphabet).collect();
    let depth = ctx.tier.pick(6, 9);
    let reset = Action::of(Cmd::Reset);
    // plain runs of the images: what "behaves like a fresh run" means
    let plain: Vec<_> = progs.iter().map(|p| crate::isolate::fresh(Env::new(true), || ()).ok().and_then(|_| run_image(&p.image.raw(), Env::new(true), SESSION_FUEL).ok().and_then(|r| r.ok()))).collect();
    let roots: Vec<St> = (0..progs.len()).map(|i| St { tag: i as u32, hist: vec![], digest: i as u64 }).collect();
    let step = |acc: &mut Acc, s: &St| -> Vec<St> {
        let i = s.tag as usize;
        let prog = &progs[i];
        let alpha = &alphabets[i];
        let mut out = Vec::new();
        for ai in 0..alpha.len() {
            let mut hist = s.hist.clone();
            hist.push(ai as u8);
            let actions: Vec<&Action> = hist.iter().map(|k| &alpha[*k as usize]).collect();
            acc.eval("transition");
            let judge = || -> Result<Option<u64>, Mismatch> {
                // state for deduplication (the history itself, paused)
                let paused = run_real(prog, &actions, Tail::Exit, true).map_err(|(sig, what)| Mismatch { sig: format!("reset/{sig}"), what })?;
                if !matches!(paused.ended, Ended::Returned) {
                    // histories that end the session (fuel, exit) are not states
                    return Ok(None);
                }
                // 1. history; reset; exit  == machine right after load
                let mut with_reset = actions.clone();
                with_reset.push(&reset);
                let r = run_real(prog, &with_reset, Tail::Exit, true).map_err(|(sig, what)| Mismatch { sig: format!("reset/{sig}"), what })?;
                let init = prog.reference().init;
                if let Some(d) = machine_diff(&r.machine, &init) {
                    return Err(Mismatch { sig: format!("reset/not-initial/{}/after-{}", machine_diff_kind(&r.machine, &init).unwrap_or("?"), cmd_kind(&actions.last().unwrap().cmd)), what: format!("after `reset` the machine differs from the one right after load: {d}") });
                }
                // 2. history; reset; reset; exit  (idempotent)
                let mut twice = with_reset.clone();
                twice.push(&reset);
                let r2 = run_real(prog, &twice, Tail::Exit, true).map_err(|(sig, what)| Mismatch { sig: format!("reset/{sig}"), what })?;
                if let Some(d) = machine_diff(&r2.machine, &init) {
                    return Err(Mismatch { sig: "reset/second-reset-differs".into(), what: format!("a second `reset` changed the machine: {d}") });
                }
                // 3. history; reset; quit  == a fresh plain run (final state and the output printed after the reset)
                let q = run_real(prog, &with_reset, Tail::Quit, true).map_err(|(sig, what)| Mismatch { sig: format!("reset/{sig}"), what })?;
                if let Some(Some(p)) = plain.get(i) {
                    // breakpoints added by the history survive a reset by design (they are debugger
                    // state), but `quit` detaches the debugger, so they cannot matter
                    if q.ended != p.ended {
                        return Err(Mismatch { sig: "reset/run-after-reset/ends-differently".into(), what: format!("run after reset ended {:?}, a fresh run ends {:?}", q.ended, p.ended) });
                    }
                    if let Some(d) = machine_diff(&q.machine, &p.machine) {
                        return Err(Mismatch { sig: format!("reset/run-after-reset/{}", machine_diff_kind(&q.machine, &p.machine).unwrap_or("?")), what: format!("final machine of the run after reset differs from a fresh run: {d}") });
                    }
                    if !q.out.ends_with(&p.out) {
                        return Err(Mismatch { sig: "reset/run-after-reset/output".into(), what: format!("run after reset printed {:?}, a fresh run prints {:?}", q.out, p.out) });
                    }
                }
                Ok(Some(obs_digest(&paused)))
            };
            let mut r = judge();
            if r.is_err() {
                r = crate::isolate::confirm_fresh(judge);
            }
            match r {
                Ok(Some(digest)) => {
                    acc.nontrivial();
                    acc.gate("reset-checked");
                    if matches!(alpha[ai].cmd, Cmd::MoveMem(..) | Cmd::Eval(_)) {
                        acc.gate("memory-mutated-before-reset");
                    }
                    acc.outcome(format!("{}/{}", prog.name, cmd_kind(&alpha[ai].cmd)));
                    if hist.len() <= 2 && ai % 4 == 0 {
                        acc.sample(format!("{i}/{hist:?}"), json!({"program": prog.name, "script": format!("{};reset;exit", script_of(&actions, Tail::Eof))}));
                    }
                    out.push(St { tag: s.tag, hist, digest });
                }
                Ok(None) => acc.skip("history ends the session"),
                Err(m) => {
                    acc.outcome(format!("violation:{}", m.sig));
                    acc.violation(format!("C12/{}", m.sig), m.what, case_json(prog, "c12", &hist, &actions, Tail::Exit));
                }
            }
        }
        out
    };
    let cfg = bfs::Config { max_depth: depth, dedup: true, state_cap: 1_000_000, wall_cap_s: ctx.tier.pick(45, 1200) };
    let (mut acc, stats) = bfs::explore(roots, &cfg, Some(Env::new(true)), step);
    // many dirtied words: a store loop over n words for every n around a power of two, under
    // every history of the small menu above
    let counts = store_counts();
    let nh = many_histories().len();
    let parts = crate::isolate::pooled(Some(Env::new(true)), counts.len() * nh, 1, Acc::new, |acc, i| {
        let (n, hi) = (counts[i / nh], i % nh);
        acc.eval("many-writes");
        let mut r = judge_many(n, hi);
        if r.is_err() {
            r = crate::isolate::confirm_fresh(|| judge_many(n, hi));
        }
        match r {
            Ok(()) => {
                acc.nontrivial();
                acc.gate("many-writes-reset-checked");
                acc.outcome(format!("many-writes/history-{hi}"));
            }
            Err(m) => {
                let script: Vec<String> = many_histories()[hi].iter().map(|c| format!("{c:?}")).collect();
                acc.outcome(format!("violation:{}", m.sig));
                acc.violation(format!("C12/{}", m.sig), m.what, json!({"check": "c12", "many_writes": n, "history_index": hi, "program": format!("store-loop-{n}"), "source": store_loop(n).text, "script": script.join("; ")}));
            }
        }
    });
    for p in parts {
        acc.merge(p);
    }
    // large images (a zero block inside; an image that ends at xFFFF) under the same menu
    let nbig = big_image_programs().len();
    let parts = crate::isolate::pooled(Some(Env::new(true)), nbig * nh, 1, Acc::new, |acc, i| {
        let (pi, hi) = (i / nh, i % nh);
        acc.eval("big-image");
        let mut r = judge_big(pi, hi);
        if r.is_err() {
            r = crate::isolate::confirm_fresh(|| judge_big(pi, hi));
        }
        match r {
            Ok(()) => {
                acc.nontrivial();
                acc.gate("big-image-reset-checked");
                acc.outcome(format!("big-image/history-{hi}"));
            }
            Err(m) => {
                acc.outcome(format!("violation:{}", m.sig));
                acc.violation(format!("C12/{}", m.sig), m.what, json!({"check": "c12", "big_image": pi, "history_index": hi, "program": big_image_programs()[pi].name}));
            }
        }
    });
    for p in parts {
        acc.merge(p);
    }
    finish(
        ctx,
        acc,
        Level { category: "model_checking", bfs: Some((stats.states, stats.transitions, 4 * stats.transitions, stats.max_depth)) },
        "explicit-state BFS over histories of executing and mutating commands (step, step into 3, continue, move into two registers, into the program's own code, its data, the stack area and below the origin, goto, eval ST/STR storing into data and the stack, break add, reset) on a self-modifying program, a loop at origin x0400 and a program storing below the origin and above user space (also through eval STR with a base register pointing outside user space). For every state reached the real debugger is run four times: history; history+reset (all registers, PC, CC and all 65,536 memory words must equal the reference machine right after load); history+reset+reset; history+reset+quit (end, final machine and output must equal a plain run of the image). Plus a many-writes section: a loop storing into n consecutive words for every n in {2^k-1, 2^k, 2^k+1 : k <= 15} and n = xBE00 (all of x4000..xFDFF), under 5 histories over {continue, step into 9, reset} ending in reset (machine equals the loaded one; a run after it equals a fresh run); the same menu on two programs with large images (8192 zero words inside with a string behind them; an image that fills memory so that the loader's HALT is the word xFFFF). non-trivial = states on which all four agreed",
        !stats.capped,
        &["reset-checked", "memory-mutated-before-reset", "many-writes-reset-checked", "big-image-reset-checked"],
        &["initial machine = refmodel::vm::Machine::load of the reference image (C01/C03 bind it to the real loader)"],
        json!({"depth": depth, "states": stats.states, "per_level": stats.per_level, "capped": stats.capped}),
    )
}

pub fn replay(_ctx: &Ctx, case: &Value) -> Option<Option<String>> {
    if let Some(pi) = case["big_image"].as_u64() {
        let hi = case["history_index"].as_u64()? as usize;
        return Some(crate::isolate::confirm_fresh(|| judge_big(pi as usize, hi)).err().map(|m| format!("{}: {}", m.sig, m.what)));
    }
    if let Some(n) = case["many_writes"].as_u64() {
        let hi = case["history_index"].as_u64()? as usize;
        return Some(crate::isolate::confirm_fresh(|| judge_many(n as u16, hi)).err().map(|m| format!("{}: {}", m.sig, m.what)));
    }
    let name = case["program"].as_str()?;
    let hist: Vec<u8> = case["history"].as_array()?.iter().map(|v| v.as_u64().unwrap() as u8).collect();
    let progs = programs12();
    let prog = progs.iter().find(|p| p.name == name)?;
    let alpha = alphabet(prog);
    let reset = Action::of(Cmd::Reset);
    let mut actions: Vec<&Action> = hist.iter().map(|i| &alpha[*i as usize]).collect();
    actions.push(&reset);
    Some(crate::isolate::confirm_fresh(|| match run_real(prog, &actions, Tail::Exit, true) {
        Ok(r) => machine_diff(&r.machine, &prog.reference().init).map(|d| format!("after reset: {d}")),
        Err((sig, what)) => Some(format!("{sig}: {what}")),
    }))
}
