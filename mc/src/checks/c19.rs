//! C19 — assembling is a pure function of the source text.
//! Every sequence of sources up to a bound is assembled on ONE thread with `reset_state()` (and
//! `StaticSource::reclaim`) between consecutive elements, exactly as the `watch` closure does; the
//! result of every element must equal its result on a fresh thread.

use crate::isolate::{fresh, par_fold, Env};
use crate::report::{finish, Acc, Ctx, Level};
use crate::session::{assemble_fresh as assemble, assemble_here, Asm};
use crate::util;
use serde_json::{json, Value};

const FIXED_SOURCES: [(&str, &str); 28] = [
    ("validA", "start add r0 r0 #1\nloop br loop\ndata .fill x10\n ld r1 data\n"),
    ("validB-reuses-labels", "data .fill x5\nstart ld r0 data\nloop add r0 r0 #-1\nbrp loop\nhalt\n"),
    ("lexer-failure-after-label", "start add r0 r0 #1\n .bogus\n"),
    ("parser-failure-after-two-labels", "start add r0 r0 r0\nloop add r1 r1 r1\n add r0 r0\n"),
    ("undefined-label", "start br nowhere\nloop halt\n"),
    ("duplicate-label", "start halt\nstart halt\n"),
    ("emission-failure", "start br far\n.blkw x200\nfar halt\n"),
    ("with-orig", ".orig x4000\nloop add r0 r0 #1\n br loop\n"),
    ("with-break", "start add r0 r0 #1\n.break\nloop halt\n"),
    ("empty", ""),
    ("uses-undefined-loop", "br loop\nhalt\n"),
    ("uses-undefined-data-start", "ld r0 data\nlea r1 start\nhalt\n"),
    // forward references (resolved only at backpatch), and a failure after one was resolved
    ("backpatch-failure-after-forward-ref", "br fwd\nld r1 later\nbr nope\nfwd halt\nlater .fill x7\n"),
    ("valid-forward-refs-elsewhere", "add r0 r0 r0\nbr fwd\nadd r1 r1 r1\nld r2 later\nlater .fill x9\nfwd halt\n"),
    ("uses-undefined-fwd", "br fwd\nhalt\n"),
    ("emission-failure-after-forward-ref", "lea r0 later\nbr far\n.blkw x200\nfar halt\nlater .fill x1\n"),
    // one source per remaining error site (each may leave half-finished state behind)
    ("lex-unclosed-string", "start add r0 r0 r0\nloop .stringz \"open\n"),
    ("lex-bad-literal", "start .fill #99999\n"),
    ("lex-unknown-token", "start add r0 r0 r0\n@\n"),
    ("lex-stack-extension-off", "start add r0 r0 r0\npush r0\nhalt\n"),
    ("preproc-bad-literal", "data .fill add\n"),
    ("preproc-no-string", "data .stringz 5\n"),
    ("parse-literal-range", "start add r0 r0 #16\n"),
    ("parse-orig-twice", ".orig x3000\nstart halt\n.orig x4000\n"),
    ("parse-label-at-end", "start halt\nloop\n"),
    ("first-word-is-instruction", "add r0 r0 #1\nloop brnzp loop\nhalt\n"),
    // an in-range reference and an out-of-range one on the same statement numbers (1 and 2)
    ("valid-refs-on-lines-1-and-2", "br near\nld r0 near\nnear halt\n"),
    ("emission-failure-on-line-2", "add r0 r0 r0\nbr far\n.blkw x200\nfar halt\n"),
];

/// The fixed sources plus generated ones: a source with 300 labels (a table that has grown must
/// be emptied like a small one) and two small sources that mention some of those labels.
pub fn sources() -> &'static Vec<(&'static str, String)> {
    use std::sync::OnceLock;
    static S: OnceLock<Vec<(&'static str, String)>> = OnceLock::new();
    S.get_or_init(|| {
        let mut v: Vec<(&'static str, String)> = FIXED_SOURCES.iter().map(|(n, t)| (*n, t.to_string())).collect();
        let mut many = String::new();
        for i in 0..300 {
            many.push_str(&format!("lbl_{i} add r0 r0 #0\n"));
        }
        many.push_str("halt\n");
        v.push(("300-labels", many));
        v.push(("defines-lbl_3-itself", "br lbl_3\nlbl_3 halt\n".to_string()));
        v.push(("uses-undefined-lbl_7", "lea r0 lbl_7\nhalt\n".to_string()));
        // the same statement number and the same target, once with an 11-bit and once with a 9-bit field
        v.push(("jsr-600-ahead", "jsr far\nhalt\n.blkw #600\nfar ret\n".to_string()));
        v.push(("br-600-ahead", "br far\nhalt\n.blkw #600\nfar ret\n".to_string()));
        // a forward reference that is resolved at backpatch, and the same source without the
        // definition (and without any label of its own)
        v.push(("forward-ref-to-done", "brz done\nadd r0 r0 r0\ndone halt\n".to_string()));
        v.push(("forward-ref-without-definition", "brz done\nadd r0 r0 r0\n".to_string()));
        // a source of more than 64 KiB of text
        let mut big = String::new();
        for _ in 0..5200 {
            big.push_str("add r0 r0 #0\n");
        }
        big.push_str("halt\n");
        v.push(("text-over-64KiB", big));
        v
    })
}

fn summarize(a: &Asm) -> String {
    match a {
        Asm::Ok(ok) => format!("ok orig={:?} words={:04x?} breaks={:?}", ok.orig, ok.words, ok.breaks),
        Asm::Err(e) => format!("err stage={} code={} msg={}", e.stage, e.code, e.message),
    }
}

/// Run a sequence on one fresh thread; returns results per element.
pub fn run_sequence(seq: &[usize]) -> Result<Vec<Asm>, crate::isolate::Stopped> {
    fresh(Env::new(false), || {
        let mut out = Vec::new();
        for (i, s) in seq.iter().enumerate() {
            if i > 0 {
                lace::reset_state();
            }
            out.push(assemble_here(&sources()[*s].1));
        }
        out
    })
}

fn judge(seq: &[usize], baseline: &[Asm]) -> Option<(String, String)> {
    match run_sequence(seq) {
        Err(stopped) => Some((
            format!("purity/panic/{}", stopped.panic_site()),
            format!("sequence stopped with {}", stopped.short()),
        )),
        Ok(results) => {
            for (i, r) in results.iter().enumerate() {
                let expect = &baseline[seq[i]];
                if r != expect {
                    let pred = if i > 0 { sources()[seq[i - 1]].0 } else { "none" };
                    return Some((
                        format!("purity/differs/{}/after/{}", sources()[seq[i]].0, pred),
                        format!("element {i} ({}) gave [{}] but a fresh thread gives [{}]", sources()[seq[i]].0, summarize(r), summarize(expect)),
                    ));
                }
            }
            None
        }
    }
}

pub fn run(ctx: &Ctx) -> i32 {
    // all sources up to length 4; thorough: additionally the 28 fixed (small) sources at length 5
    let max_len = 4;
    let k = sources().len();
    let k_fixed = FIXED_SOURCES.len();
    let len5 = ctx.tier.pick(false, true);
    // Baseline: every source on its own fresh thread, twice (determinism of the oracle itself).
    let mut baseline = Vec::new();
    let mut pre = Acc::new();
    for (name, src) in sources().iter() {
        let src = src.as_str();
        let a = assemble(src, Env::new(false));
        let b = assemble(src, Env::new(false));
        match (a, b) {
            (Ok(a), Ok(b)) => {
                if a != b {
                    pre.violation(format!("purity/fresh-nondeterministic/{name}"), format!("two fresh assemblies of {name} differ"), json!({"source": src}));
                }
                baseline.push(a);
            }
            (a, _) => {
                pre.violation(format!("purity/fresh-panic/{name}"), format!("fresh assembly of {name} stopped: {:?}", a.err().map(|e| e.short())), json!({"source": src}));
                baseline.push(Asm::Err(Default::default()));
            }
        }
    }
    let mut total: usize = 0;
    let mut offsets = vec![];
    for len in 1..=max_len {
        offsets.push((len, total));
        total += util::pow(k, len);
    }
    let all_total = total;
    if len5 {
        total += util::pow(k_fixed, 5);
    }
    let parts = par_fold(total, 16, Acc::new, |acc, idx| {
        let (len, seq) = if idx >= all_total {
            (5, util::seq(idx - all_total, k_fixed, 5))
        } else {
            let (len, off) = *offsets.iter().rev().find(|(_, off)| idx >= *off).unwrap();
            (len, util::seq(idx - off, k, len))
        };
        acc.eval(&format!("len{len}"));
        match judge(&seq, &baseline) {
            Some((sig, what)) => {
                acc.outcome(format!("violation:{sig}"));
                acc.violation(sig, what, json!({"sequence": seq, "names": seq.iter().map(|s| sources()[*s].0).collect::<Vec<_>>(), "sources": seq.iter().map(|s| &sources()[*s].1).collect::<Vec<_>>()}));
            }
            None => {
                let last = &baseline[*seq.last().unwrap()];
                acc.outcome(format!("last={}", match last { Asm::Ok(_) => "ok".to_string(), Asm::Err(e) => format!("err:{}", e.stage) }));
                if seq.len() > 1 {
                    acc.nontrivial();
                    let prev = &baseline[seq[seq.len() - 2]];
                    if matches!(prev, Asm::Err(_)) && matches!(last, Asm::Ok(_)) {
                        acc.gate("ok-after-failure");
                    }
                    if matches!(prev, Asm::Ok(_)) && matches!(last, Asm::Err(_)) {
                        acc.gate("failure-after-ok");
                    }
                }
                if idx % 397 == 0 {
                    acc.sample(format!("{idx}"), json!({"sequence": seq.iter().map(|s| sources()[*s].0).collect::<Vec<_>>(), "last_result": summarize(last)}));
                }
            }
        }
    });
    let mut acc = Acc::merge_all(parts);
    acc.merge(pre);
    for (i, b) in baseline.iter().enumerate() {
        match b {
            Asm::Ok(_) => acc.gate("some-source-ok"),
            Asm::Err(e) => acc.gate(&format!("stage-{}", e.stage)),
        }
        let _ = i;
    }
    let n = acc.evaluations;
    finish(
        ctx,
        acc,
        Level { category: "model_checking", bfs: Some((n, n, n, max_len as u64)) },
        "every sequence of length 1..=4 over 36 sources (thorough: also every sequence of length 5 over the 28 fixed ones) (28 fixed ones, a source with 300 labels and two small ones mentioning some of them, the same far reference through an 11-bit and a 9-bit field, a forward reference with and without its definition, a source of more than 64 KiB) (valid ones, and one failing at every error site of the assembler) (valid, failing at each stage, sharing and re-using label names) assembled on one thread with reset_state()+reclaim between elements; each element's result (image, origin, breakpoints, spans, or diagnostic incl. rendering) compared with the same source on a fresh thread; states = sequences (no merging: equality of the merged states is the property itself); distinct_nontrivial = sequences of length >= 2 that agreed",
        true,
        &["ok-after-failure", "failure-after-ok", "some-source-ok", "stage-lex", "stage-parse", "stage-backpatch", "stage-emit"],
        &["a fresh OS thread has the thread-local state of a fresh process", "diagnostic rendering is deterministic for equal (report, source)"],
        json!({"max_len": max_len, "sources": sources().iter().map(|s| s.0).collect::<Vec<_>>()}),
    )
}

pub fn replay(_ctx: &Ctx, case: &Value) -> Option<Option<String>> {
    let seq: Vec<usize> = case["sequence"].as_array()?.iter().map(|v| v.as_u64().unwrap() as usize).collect();
    let baseline: Vec<Asm> = sources().iter().map(|(_, s)| assemble(s, Env::new(false)).unwrap_or(Asm::Err(Default::default()))).collect();
    Some(judge(&seq, &baseline).map(|(sig, what)| format!("{sig}: {what}")))
}
