//! Facets the ISA editions / README leave open are measured once on the implementation and the
//! reference follows them in multi-step runs (the one-step check C02 accepts every value).

use crate::isolate::{fresh, guard, Env};
use crate::refmodel::vm::Variant;
use lace::RunEnvironment;
use std::sync::OnceLock;

static VARIANT: OnceLock<Variant> = OnceLock::new();

/// Must first be called in the parent process (workers inherit the value).
pub fn measured() -> Variant {
    *VARIANT.get_or_init(|| {
        fresh(Env::new(true), || {
            let mut env = RunEnvironment::from_raw(&[0x3000]).expect("load");
            env.verif_set_pc(0x3001);
            env.verif_set_cc(0);
            let _ = guard(|| env.verif_execute(0xE005)); // LEA R0, #5
            let lea_sets_cc = env.verif_cc() != 0;
            env.verif_set_reg(7, 0x4000);
            env.verif_set_pc(0x3001);
            let _ = guard(|| env.verif_execute(0x41C0)); // JSRR R7
            let jsrr_link_first = env.verif_pc() == 0x3001;
            Variant { lea_sets_cc, jsrr_link_first }
        })
        .unwrap_or(Variant::ALL[0])
    })
}
