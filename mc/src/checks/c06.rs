//! C06 — object files round-trip and the loader rejects what it cannot load.

use crate::cli::{be_bytes, program_output, Lace};
use crate::gen::programs::seeds;
use crate::isolate::pooled;
use crate::refmodel::asm::*;
use crate::refmodel::vm::{self, Io, Machine, RunEnd};
use crate::report::{finish, Acc, Ctx, Level};
use serde_json::{json, Value};

pub fn programs06() -> Vec<(String, Program, bool)> {
    let mut v: Vec<(String, Program, bool)> = seeds().into_iter().enumerate().map(|(i, (p, s))| (format!("seed{i}"), p, s)).collect();
    // every origin class with a small printing program
    for (i, o) in [0x0000u16, 0x0001, 0x0200, 0x2FFF, 0x3000, 0x7FFF, 0x8000, 0xFD00, 0xFDF8, 0xFDFD, 0xFE00, 0xFFFE, 0xFFFF].iter().enumerate() {
        let mut p = Program::default();
        p.items.push(Item::Orig(Lit::hex(*o)));
        // prints its own load address: a source run and an object-file run placed at different
        // addresses cannot print the same
        p.push(None, Stmt::Mem(PcRel::Lea, 0, Target::Label("here".into())));
        p.push(Some("here"), Stmt::Named(0x26, "putn"));
        p.push(None, Stmt::Named(0x25, "halt"));
        v.push((format!("origin{i}-x{o:04x}"), p, false));
    }
    // adjacent identical statements that refer to a label (the same text, different offsets)
    let mut p = Program::default();
    p.push(None, Stmt::And(0, 0, Src2::Imm(Lit::dec(0))));
    p.push(None, Stmt::Jsr(Target::Label("bump".into())));
    p.push(None, Stmt::Jsr(Target::Label("bump".into())));
    p.push(None, Stmt::Mem(PcRel::Ld, 1, Target::Label("one".into())));
    p.push(None, Stmt::Mem(PcRel::Ld, 1, Target::Label("one".into())));
    p.push(None, Stmt::Add(0, 0, Src2::Reg(1)));
    p.push(None, Stmt::Named(0x26, "putn"));
    p.push(None, Stmt::Named(0x25, "halt"));
    p.push(Some("bump"), Stmt::Add(0, 0, Src2::Imm(Lit::dec(1))));
    p.push(None, Stmt::Add(0, 0, Src2::Imm(Lit::dec(1))));
    p.push(None, Stmt::Ret);
    p.push(Some("one"), Stmt::Fill(Lit::hex(0x0001)));
    p.push(None, Stmt::Fill(Lit::hex(0x0064)));
    v.push(("adjacent-identical-references".to_string(), p, false));
    // data with every byte pattern class, strings
    let mut p = Program::default();
    p.push(None, Stmt::Mem(PcRel::Lea, 0, Target::Label("s".into())));
    p.push(None, Stmt::Named(0x22, "puts"));
    p.push(None, Stmt::Named(0x25, "halt"));
    p.push(Some("s"), Stmt::Stringz("bytes: \\t é".into()));
    for w in [0x0000u16, 0x00FF, 0xFF00, 0xFFFF, 0x0A0D, 0x1234] {
        p.push(None, Stmt::Fill(Lit::hex(w)));
    }
    v.push(("data-words".into(), p, false));
    // no statement at all: the object file is the origin word alone, the machine runs into the
    // implicit HALT at once
    v.push(("empty-program".into(), Program::default(), false));
    let mut p = Program::default();
    p.items.push(Item::Orig(Lit::hex(0x4000)));
    v.push(("only-an-origin".into(), p, false));
    // the first statement emits x0000 (a branch never taken), visible behaviour follows
    let mut p = Program::default();
    p.push(Some("first"), Stmt::Fill(Lit::dec(0)));
    p.push(None, Stmt::Mem(PcRel::Ld, 0, Target::Label("first".into())));
    p.push(None, Stmt::Named(0x26, "putn"));
    p.push(None, Stmt::Mem(PcRel::Lea, 0, Target::Label("msg".into())));
    p.push(None, Stmt::Named(0x22, "puts"));
    p.push(None, Stmt::Named(0x25, "halt"));
    p.push(Some("msg"), Stmt::Stringz(" ok".into()));
    v.push(("zero-first-word".into(), p, false));
    // every statement emits x0000 except the last two
    let mut p = Program::default();
    for _ in 0..3 {
        p.push(None, Stmt::Fill(Lit::hex(0)));
    }
    p.push(None, Stmt::Named(0x26, "putn"));
    p.push(None, Stmt::Named(0x25, "halt"));
    v.push(("zero-words-then-output".into(), p, false));
    // output that depends on the output mode: the register dump (boxed table or plain lines) and
    // an escape character (shown raw or as a symbol)
    let mut p = Program::default();
    p.push(None, Stmt::Add(3, 3, Src2::Imm(Lit::dec(7))));
    p.push(None, Stmt::Named(0x27, "reg"));
    p.push(None, Stmt::Mem(PcRel::Ld, 0, Target::Label("esc".into())));
    p.push(None, Stmt::Named(0x21, "out"));
    p.push(None, Stmt::Named(0x25, "halt"));
    p.push(Some("esc"), Stmt::Fill(Lit::hex(0x001B)));
    v.push(("mode-dependent-output".into(), p, false));
    // without HALT; with an unknown trap (error exit); with the stack extension
    v.push(("no-halt".into(), Program::of(vec![Stmt::Add(1, 1, Src2::Imm(Lit::dec(1)))]), false));
    v.push(("unknown-trap".into(), Program::of(vec![Stmt::Trap(Lit::hex(0x99))]), false));
    v
}

fn normalize(s: &str, name: &str) -> String {
    s.replace(&format!("{name}.asm"), "FILE").replace(&format!("{name}.lc3"), "FILE").replace(&format!("{name}.obj"), "FILE")
}

pub fn run(ctx: &Ctx) -> i32 {
    let lace = Lace::new(&ctx.lace_bin, &ctx.scratch);
    let progs = programs06();
    // Part 1: compile output bytes and run equivalence
    let parts = pooled(None, progs.len(), 1, Acc::new, |acc, i| {
        let (name, prog, stack) = &progs[i];
        acc.eval("round-trip");
        let text = print_plain(prog);
        let img = match encode(prog, *stack) {
            Ok(i) => i,
            Err(_) => {
                acc.skip("reference rejects");
                return;
            }
        };
        lace.write(&format!("{name}.asm"), text.as_bytes());
        let flag: Vec<&str> = if *stack { vec!["-f", "stack"] } else { vec![] };
        let src = format!("{name}.asm");
        let dst = format!("{name}.lc3");
        // the destination already exists: every third program compiles over a longer object file,
        // every third over a shorter one
        match i % 4 {
            0 => {
                lace.write(&dst, &vec![0x5A; 2 * (img.words.len() + 1) + 14]);
            }
            1 => {
                lace.write(&dst, &[0x30]);
            }
            2 => {
                lace.write(&dst, &vec![0x5A; 2 * (img.words.len() + 1)]);
            }
            _ => {}
        }
        let mut args = vec!["compile", src.as_str(), dst.as_str()];
        args.extend(&flag);
        let c = lace.run(&args, b"");
        let case = json!({"program": name, "source": text, "stack_feature": stack});
        if c.status != 0 {
            acc.violation(format!("C06/compile/fails/{}", c.class()), format!("`lace compile` of an accepted program exits with {}: {}", c.status, c.err().lines().next().unwrap_or("")), case);
            return;
        }
        let bytes = std::fs::read(lace.cwd.join(&dst)).unwrap_or_default();
        let want = be_bytes(&img.raw());
        if bytes != want {
            let kind = if bytes.len() != want.len() { "length" } else if bytes[..2.min(bytes.len())] != want[..2] { "origin-word" } else { "words" };
            acc.violation(format!("C06/compile/bytes-{kind}"), format!("object file has {} bytes {:02x?}…, expected {} bytes {:02x?}… (2(n+1), big-endian, origin first)", bytes.len(), &bytes[..bytes.len().min(8)], want.len(), &want[..want.len().min(8)]), case);
            return;
        }
        // run object file vs run source, in both output modes (`--minimal` and the default)
        let mut status = 0;
        for mode in [&["--minimal"][..], &[][..]] {
            let mode_name = if mode.is_empty() { "full-output" } else { "minimal" };
            let mut a1 = vec!["run", src.as_str()];
            a1.extend(mode);
            a1.extend(&flag);
            let mut a2 = vec!["run", dst.as_str()];
            a2.extend(mode);
            a2.extend(&flag);
            let r1 = lace.run(&a1, b"");
            let r2 = lace.run(&a2, b"");
            // the same bytes under the other documented extension
            std::fs::copy(lace.cwd.join(&dst), lace.cwd.join(format!("{name}.obj"))).ok();
            let obj = format!("{name}.obj");
            let mut a3 = vec!["run", obj.as_str()];
            a3.extend(mode);
            a3.extend(&flag);
            let r3 = lace.run(&a3, b"");
            // the bare-path form `lace FILE` (documented as a quick way to run a file)
            let mut a4 = vec![dst.as_str()];
            a4.extend(mode);
            a4.extend(&flag);
            let r4 = lace.run(&a4, b"");
            for (r, what) in [(&r2, "lc3"), (&r3, "obj"), (&r4, "bare-path")] {
                if r.status != r1.status {
                    acc.violation(format!("C06/run/exit-status-differs/{what}/{mode_name}"), format!("running the object file exits with {}, running the source with {} ({mode_name})", r.status, r1.status), case.clone());
                    return;
                }
                if normalize(&r.out(), name) != normalize(&r1.out(), name) {
                    acc.violation(format!("C06/run/stdout-differs/{what}/{mode_name}"), format!("stdout of the object file {:?} vs the source {:?} ({mode_name})", r.out(), r1.out()), case.clone());
                    return;
                }
            }
            status = r1.status;
        }
        acc.nontrivial();
        acc.gate("round-trip-agreed");
        acc.outcome(format!("round-trip/status{}", status));
        if i % 6 == 0 {
            acc.sample(format!("rt{i}"), json!({"program": name, "bytes": want.len(), "first_bytes": format!("{:02x?}", &want[..want.len().min(8)]), "run_status": status}));
        }
        for ext in ["asm", "lc3", "obj"] {
            let _ = std::fs::remove_file(lace.cwd.join(format!("{name}.{ext}")));
        }
    });
    let mut acc = Acc::merge_all(parts);

    // Part 2: the loader. Byte strings of every length 0..=6; then images around the top of memory.
    let mut files: Vec<(String, Vec<u8>)> = Vec::new();
    for len in 0..=6usize {
        for fill in [0x00u8, 0x30, 0xF0, 0xFF] {
            let mut b = vec![fill; len];
            if len >= 2 {
                b[0] = 0x30;
                b[1] = 0x00;
            }
            if len >= 4 {
                b[2] = 0xF0;
                b[3] = 0x25;
            }
            files.push((format!("len{len}-fill{fill:02x}"), b));
        }
    }
    for first in [0x0000u16, 0x3000, 0xFDFF, 0xFE00, 0xFFFD, 0xFFFE, 0xFFFF] {
        // n words after the origin: top = first + n + 1 (implicit HALT) against x10000
        let room = 0x10000 - first as i64 - 1; // largest n that fits
        let mut ns = vec![room - 2, room - 1, room, room + 1, room + 2, 0, 1];
        ns.retain(|n| *n >= 0);
        ns.sort();
        ns.dedup();
        for n in ns {
            for parity in [0usize, 1] {
                let mut b = be_bytes(&[first]);
                for k in 0..n {
                    // HALT first so that accepted images stop at once
                    b.extend(if k == 0 { [0xF0, 0x25] } else { [0x12, 0x34] });
                }
                if parity == 1 {
                    b.push(0x00);
                }
                files.push((format!("first{first:04x}-n{n}-odd{parity}"), b));
            }
        }
    }
    // size extremes: sparse files far larger than memory (all zero bytes: first word x0000)
    let mut sparse_acc = Acc::new();
    for (len, label) in [(1u64 << 42, "4TiB"), ((1u64 << 42) + 1, "4TiB+1"), (131074, "131074")] {
        for ext in ["lc3", "obj"] {
            let file = format!("sparse-{label}.{ext}");
            let path = lace.cwd.join(&file);
            let made = std::fs::File::create(&path).and_then(|f| f.set_len(len));
            if made.is_err() {
                let _ = std::fs::remove_file(&path);
                sparse_acc.skip("file system refuses a sparse file of that size");
                continue;
            }
            sparse_acc.eval("loader-sparse");
            let r = lace.run_timeout(&["run", &file, "--minimal"], b"", &[], None, 120);
            let _ = std::fs::remove_file(&path);
            let case = json!({"loader_sparse": true, "file": file, "length": len});
            if r.class() == "crash" || r.class() == "timeout" {
                sparse_acc.violation("C06/loader/crash/unloadable-sparse", format!("loading a sparse file of {len} zero bytes crashed (status {}): {}", r.status, r.err().lines().last().unwrap_or("")), case);
            } else if r.status == 0 {
                sparse_acc.violation("C06/loader/accepts-unloadable/too-long", format!("a file of {len} bytes was accepted"), case);
            } else {
                sparse_acc.nontrivial();
                sparse_acc.outcome(format!("loader/sparse/rejected/status{}", r.status));
            }
        }
    }
    let parts = pooled(None, files.len() * 2, 1, Acc::new, |acc, k| {
        let (name, bytes) = &files[k / 2];
        let ext = if k % 2 == 0 { "lc3" } else { "obj" };
        acc.eval("loader");
        let file = format!("ld-{name}.{ext}");
        lace.write(&file, bytes);
        let r = lace.run(&["run", &file, "--minimal"], b"");
        let _ = std::fs::remove_file(lace.cwd.join(&file));
        let words: Vec<u16> = bytes.chunks(2).filter(|c| c.len() == 2).map(|c| u16::from_be_bytes([c[0], c[1]])).collect();
        let loadable = bytes.len() % 2 == 0 && !bytes.is_empty() && Machine::load(&words).is_some();
        let case = json!({"loader": true, "file": file, "length": bytes.len(), "first_bytes": format!("{:02x?}", &bytes[..bytes.len().min(6)]), "bytes_hex": if bytes.len() <= 64 { json!(bytes.iter().map(|b| format!("{b:02x}")).collect::<String>()) } else { Value::Null }});
        if r.class() == "crash" || r.class() == "timeout" {
            acc.violation(format!("C06/loader/crash/{}", if loadable { "loadable" } else { "unloadable" }), format!("loading a {}-byte file crashed (status {}): {}", bytes.len(), r.status, r.err().lines().last().unwrap_or("")), case);
            return;
        }
        if !loadable {
            if r.status == 0 {
                let why = if bytes.is_empty() { "empty" } else if bytes.len() % 2 == 1 { "odd-length" } else { "too-long" };
                acc.violation(format!("C06/loader/accepts-unloadable/{why}"), format!("a {why} file of {} bytes was accepted", bytes.len()), case);
            } else {
                acc.nontrivial();
                acc.gate("unloadable-rejected");
                acc.outcome(format!("loader/rejected/status{}", r.status));
            }
            return;
        }
        // loadable: must behave as the reference run of that image
        let mut m = Machine::load(&words).unwrap();
        let mut io = Io::new(&[]);
        let rr = vm::run(&mut m, false, super::variant::measured(), &mut io, 200_000);
        let want = match rr.end {
            RunEnd::Normal => 0,
            RunEnd::OutOfBounds => 0xEE,
            RunEnd::Exit(c) => c,
            _ => {
                acc.skip("reference run not decisive");
                return;
            }
        };
        if r.status != want {
            acc.violation(format!("C06/loader/rejects-loadable-or-runs-differently/status{}-want{}", r.status, want), format!("a loadable {}-byte image (first word x{:04x}) exits with {}, the machine model says {}: {}", bytes.len(), words[0], r.status, want, r.err().lines().last().unwrap_or("")), case);
            return;
        }
        let _ = program_output;
        acc.nontrivial();
        acc.gate("loadable-accepted");
        acc.outcome(format!("loader/accepted/status{want}"));
        if k % 37 == 0 {
            acc.sample(format!("ld{k}"), json!({"file": file, "length": bytes.len(), "first_word": format!("x{:04x}", words[0]), "status": r.status}));
        }
    });
    for p in parts {
        acc.merge(p);
    }
    acc.merge(sparse_acc);
    finish(
        ctx,
        acc,
        Level { category: "model_checking", bfs: None },
        "enumeration against the real binary: (1) 26 accepted programs (10 seeds covering every statement kind, 13 origins from x0000 to xFFFF, data words of every byte class, no HALT, error exit): `lace compile` output (onto a fresh, a longer, a shorter and an equally long pre-existing destination in turn) must be byte-for-byte 2(n+1) big-endian bytes of the reference image, and `lace run` of the .lc3 and of the same bytes as .obj must give the same exit status and stdout as `lace run` of the source; (2) the loader on every length 0..6 x 4 fill bytes, and for first word in {x0000,x3000,xFDFF,xFE00,xFFFD,xFFFE,xFFFF} images ending two below, one below, exactly at, one above and two above the top of memory, each with and without a trailing odd byte, under both extensions: plus sparse files of 131074, 2^42 and 2^42+1 zero bytes; accepted iff even, non-empty and origin+n+1 <= x10000, rejected with a non-zero status that is not a crash, accepted images exit as the machine model says. non-trivial = agreeing cases",
        true,
        &["round-trip-agreed", "unloadable-rejected", "loadable-accepted"],
        &["reference image = refmodel::asm; reference run = refmodel::vm"],
        json!({"programs": progs.len(), "loader_files": files.len() * 2}),
    )
}

pub fn replay(ctx: &Ctx, case: &Value) -> Option<Option<String>> {
    let lace = Lace::new(&ctx.lace_bin, &ctx.scratch);
    if case["loader_sparse"].as_bool() == Some(true) {
        let name = if case["file"].as_str()?.ends_with("obj") { "r.obj" } else { "r.lc3" };
        let path = lace.cwd.join(name);
        std::fs::File::create(&path).and_then(|f| f.set_len(case["length"].as_u64().unwrap_or(0))).ok()?;
        let r = lace.run_timeout(&["run", name, "--minimal"], b"", &[], None, 120);
        let _ = std::fs::remove_file(&path);
        return Some(if r.class() == "crash" || r.class() == "timeout" || r.status == 0 { Some(format!("exit status {} ({})", r.status, r.class())) } else { None });
    }
    if case["loader"].as_bool() == Some(true) {
        let hex = case["bytes_hex"].as_str()?;
        let bytes: Vec<u8> = (0..hex.len() / 2).map(|i| u8::from_str_radix(&hex[2 * i..2 * i + 2], 16).unwrap()).collect();
        let name = if case["file"].as_str()?.ends_with("obj") { "r.obj" } else { "r.lc3" };
        lace.write(name, &bytes);
        let r = lace.run(&["run", name, "--minimal"], b"");
        return Some(Some(format!("exit status {} ({})", r.status, r.class())));
    }
    let src = case["source"].as_str()?;
    lace.write("r.asm", src.as_bytes());
    let stack = case["stack_feature"].as_bool().unwrap_or(false);
    let mut args = vec!["compile", "r.asm", "r.lc3"];
    if stack {
        args.extend(["-f", "stack"]);
    }
    let c = lace.run(&args, b"");
    Some(Some(format!("compile status {}, {} bytes written", c.status, std::fs::read(lace.cwd.join("r.lc3")).map(|b| b.len()).unwrap_or(0))))
}
