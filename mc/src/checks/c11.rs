//! C11 — breakpoints always stop execution before the marked instruction.

use super::c10::replay_history;
use super::dbgcommon::*;
use crate::bfs::{self, St};
use crate::isolate::Env;
use crate::refmodel::asm::*;
use crate::refmodel::dbg::{Cmd, Loc, Pause};
use crate::report::{finish, Acc, Ctx, Level};
use serde_json::{json, Value};

/// Loop program with `.break` placed in every way, a self-branch under a breakpoint, a breakpoint
/// directly before HALT; default and non-default origin.
pub fn programs11() -> Vec<Prog> {
    let mut v = Vec::new();
    let base = |breaks: &[usize], orig: Option<u16>| -> Program {
        let stmts: Vec<(Option<&str>, Stmt)> = vec![
            (Some("first"), Stmt::And(1, 1, Src2::Imm(Lit::dec(0)))),
            (None, Stmt::Add(1, 1, Src2::Imm(Lit::dec(3)))),
            (Some("loop"), Stmt::Add(2, 2, Src2::Imm(Lit::dec(1)))),
            (None, Stmt::Add(1, 1, Src2::Imm(Lit::dec(-1)))),
            (Some("bra"), Stmt::Br(0b001, "brp".into(), lbl("loop"))),
            (Some("end"), Stmt::Named(0x25, "halt")),
        ];
        let mut p = Program::default();
        if let Some(o) = orig {
            p.items.push(Item::Orig(Lit::hex(o)));
        }
        for (i, (l, s)) in stmts.into_iter().enumerate() {
            for b in breaks {
                if *b == i {
                    p.items.push(Item::Break);
                }
            }
            p.push(l, s);
        }
        for b in breaks {
            if *b == 6 {
                p.items.push(Item::Break);
            }
        }
        p
    };
    const NAMES: [&str; 13] = ["loop-nobreak", "break@0", "break@1", "break@2-labelled", "break@3", "break@4", "break@5-halt", "break@end", "break-doubled@2", "breaks@0+2+4", "break@2-orig-x4000", "breaks@1+3+5-orig-x0002", "break@4-orig-x0004"];
    let sets: [(&[usize], Option<u16>); 13] = [(&[], None), (&[0], None), (&[1], None), (&[2], None), (&[3], None), (&[4], None), (&[5], None), (&[6], None), (&[2, 2], None), (&[0, 2, 4], None), (&[2], Some(0x4000)), (&[1, 3, 5], Some(0x0002)), (&[4], Some(0x0004))];
    for (i, (b, o)) in sets.iter().enumerate() {
        v.push(Prog::new(NAMES[i], base(b, *o), true));
    }
    // `.break` that carries a label of its own (the label names the marked statement's address)
    let mut p = base(&[], None);
    let pos = p.items.iter().position(|i| matches!(i, Item::Stmt { label: Some(l), .. } if l == "loop")).unwrap();
    p.items.insert(pos + 1, Item::LBreak("mark".into()));
    v.push(Prog::new("labelled-break@3", p, true));
    // every opcode and output trap, with a labelled `.break` on the first statement: breakpoints
    // land on loads, a REG trap, stack instructions, a branch and HALT
    let mut k = every_kind();
    k.ast.items.insert(0, Item::LBreak("first".into()));
    v.push(Prog::new("every-instruction-kind", k.ast, true));
    // self-branch that carries a breakpoint, reached after one instruction
    let mut p = Program::default();
    p.push(Some("first"), Stmt::Add(1, 1, Src2::Imm(Lit::dec(1))));
    p.items.push(Item::Break);
    p.push(Some("loop"), Stmt::Br(0b001, "brp".into(), lbl("loop")));
    p.push(Some("end"), Stmt::Named(0x25, "halt"));
    v.push(Prog::new("self-branch", p, true));
    // breakpoint on the instruction directly before HALT, inside a loop driven by goto/reset
    let mut p = Program::default();
    p.push(Some("first"), Stmt::Add(1, 1, Src2::Imm(Lit::dec(1))));
    p.items.push(Item::Break);
    p.push(Some("loop"), Stmt::Add(2, 2, Src2::Imm(Lit::dec(1))));
    p.push(Some("end"), Stmt::Named(0x25, "halt"));
    v.push(Prog::new("break-before-halt", p, true));
    // subroutine whose return lands on a breakpoint that is also its own return address
    let mut p = Program::default();
    p.push(Some("first"), Stmt::Add(0, 0, Src2::Imm(Lit::dec(2))));
    p.push(None, Stmt::Call(lbl("loop")));
    p.push(Some("end"), Stmt::Named(0x25, "halt"));
    p.push(Some("loop"), Stmt::Add(0, 0, Src2::Imm(Lit::dec(-1))));
    p.push(None, Stmt::Br(0b110, "brnz".into(), lbl("done")));
    p.push(None, Stmt::Call(lbl("loop")));
    p.items.push(Item::Break);
    p.push(Some("done"), Stmt::Rets);
    v.push(Prog::new("return-onto-breakpoint", p, true));
    // two .break with nothing but unlabelled data between them (the data is executed as NOPs)
    let mut p = Program::default();
    p.push(Some("first"), Stmt::And(0, 0, Src2::Imm(Lit::dec(0))));
    p.items.push(Item::Break);
    p.push(None, Stmt::Blkw(Lit::dec(2)));
    p.items.push(Item::Break);
    p.push(Some("loop"), Stmt::Add(0, 0, Src2::Imm(Lit::dec(1))));
    p.items.push(Item::Break);
    p.push(None, Stmt::Fill(Lit::hex(0x0000)));
    p.push(None, Stmt::Stringz("".into()));
    p.items.push(Item::Break);
    p.push(Some("end"), Stmt::Named(0x25, "halt"));
    v.push(Prog::new("breaks-around-data", p, true));
    v
}

pub fn alphabet(prog: &Prog) -> Vec<Action> {
    let a_loop = prog.addr_of("loop");
    let first = prog.addr_of("first");
    vec![
        Action::of(Cmd::Continue),
        Action::of(Cmd::Step),
        Action::of(Cmd::StepInto(1)),
        Action::of(Cmd::StepInto(3)),
        Action::of(Cmd::StepOut),
        Action::of(Cmd::Reset),
        Action::of(Cmd::Goto(Loc::Abs(first))),
        Action::of(Cmd::BreakAdd(Loc::Abs(a_loop))),
        Action::of(Cmd::BreakRemove(Loc::Label("loop".into(), 0))),
        Action::of(Cmd::BreakAdd(Loc::Label("loop".into(), 1))),
        Action::of(Cmd::BreakRemove(Loc::Abs(a_loop.wrapping_add(1)))),
        Action::of(Cmd::BreakAdd(Loc::PcOff(1))),
        Action::of(Cmd::BreakRemove(Loc::PcOff(0))),
        Action::of(Cmd::BreakAdd(Loc::Label("end".into(), 0))),
    ]
}

/// `break list` in minimal mode must print exactly the sorted set.
fn break_list_matches(prog: &Prog, actions: &[&Action], expected: &[u16]) -> Option<Mismatch> {
    let marker_a = Action::spelled("echo LISTBEGIN", Cmd::Echo("LISTBEGIN".into()));
    let list = Action::of(Cmd::BreakList);
    let marker_b = Action::spelled("echo LISTEND", Cmd::Echo("LISTEND".into()));
    let mut all: Vec<&Action> = actions.to_vec();
    all.push(&marker_a);
    all.push(&list);
    all.push(&marker_b);
    let obs = match run_real(prog, &all, Tail::Exit, true) {
        Ok(o) => o,
        Err((sig, what)) => return Some(Mismatch { sig: format!("dbg/break-list/{sig}"), what }),
    };
    let text = obs.dbg;
    let Some(a) = text.find("[LISTBEGIN]\n") else { return Some(Mismatch { sig: "dbg/break-list/marker-missing".into(), what: "marker missing".into() }) };
    let Some(b) = text.find("[LISTEND]\n") else { return Some(Mismatch { sig: "dbg/break-list/marker-missing".into(), what: "marker missing".into() }) };
    let body = &text[a + "[LISTBEGIN]\n".len()..b];
    let want: String = if expected.is_empty() { "Breakpoints::Empty\n".to_string() } else { expected.iter().map(|a| format!("x{a:04x}\n")).collect() };
    if body != want {
        return Some(Mismatch { sig: "dbg/break-list/wrong-listing".into(), what: format!("`break list` printed {body:?}, the breakpoint set is {want:?}") });
    }
    None
}

/// Many breakpoints at once: a straight line of `n + 2` instructions; breakpoints are added at
/// all of x3001..x3000+n in a scrambled order, the program is continued three times, every second
/// breakpoint is removed again (descending), and it is continued twice more.
pub fn many_breakpoints(n: usize) -> (Prog, Vec<Action>) {
    let mut p = Program::default();
    p.push(Some("first"), Stmt::Add(1, 1, Src2::Imm(Lit::dec(1))));
    for _ in 0..n + 1 {
        p.push(None, Stmt::Add(2, 2, Src2::Imm(Lit::dec(1))));
    }
    p.push(Some("end"), Stmt::Named(0x25, "halt"));
    let prog = Prog::new(Box::leak(format!("straight-line-{n}").into_boxed_str()), p, true);
    let orig = prog.image.origin();
    let mut acts = Vec::new();
    // a multiplier coprime to n scrambles the order of insertion
    let mul = [7919usize, 7907, 7901, 7883, 7879].into_iter().find(|m| gcd(*m, n) == 1).unwrap_or(1);
    for i in 0..n {
        let a = orig + 1 + ((i * mul) % n) as u16;
        acts.push(Action::of(Cmd::BreakAdd(Loc::Abs(a))));
    }
    // a second breakpoint on addresses that have one, and the removal of one that does not exist
    for i in [0, n / 2, n - 1] {
        acts.push(Action::of(Cmd::BreakAdd(Loc::Abs(orig + 1 + i as u16))));
    }
    acts.push(Action::of(Cmd::BreakRemove(Loc::Abs(orig + 1 + n as u16))));
    for _ in 0..3 {
        acts.push(Action::of(Cmd::Continue));
    }
    for i in (0..n).rev().step_by(2) {
        acts.push(Action::of(Cmd::BreakRemove(Loc::Abs(orig + 1 + i as u16))));
    }
    acts.push(Action::of(Cmd::Continue));
    acts.push(Action::of(Cmd::Continue));
    (prog, acts)
}

fn gcd(a: usize, b: usize) -> usize {
    if b == 0 { a } else { gcd(b, a % b) }
}

fn judge_many(n: usize) -> Option<Mismatch> {
    let (prog, acts) = many_breakpoints(n);
    let actions: Vec<&Action> = acts.iter().collect();
    // after the additions and three continues; and at the end
    for cut in [n, n + 4, n + 7, actions.len()] {
        let part = &actions[..cut];
        let obs = match run_real_fuel(&prog, part, Tail::Exit, true, 2_000_000) {
            Ok(o) => o,
            Err((sig, what)) => return Some(Mismatch { sig: format!("many-breakpoints/{sig}"), what }),
        };
        let (d, pauses) = run_ref_fuel(&prog, part, 2_000_000);
        if let Err(m) = compare_paused(&prog, part, &obs, &d, &pauses) {
            return Some(Mismatch { sig: format!("many-breakpoints/{}", m.sig), what: format!("{n} breakpoints, after {cut} commands: {}", m.what) });
        }
        if let Some(m) = break_list_matches(&prog, part, &d.breakpoints()) {
            return Some(Mismatch { sig: format!("many-breakpoints/{}", m.sig), what: format!("{n} breakpoints, after {cut} commands: {}", if m.what.len() > 300 { format!("{}...", &m.what[..300]) } else { m.what }) });
        }
    }
    None
}

pub fn run(ctx: &Ctx) -> i32 {
    let _ = super::variant::measured();
    let progs = programs11();
    let alphabets: Vec<Vec<Action>> = progs.iter().map(alphabet).collect();
    let depth = ctx.tier.pick(7, 11);
    let roots: Vec<St> = (0..progs.len()).map(|i| St { tag: i as u32, hist: vec![], digest: i as u64 }).collect();
    let step = |acc: &mut Acc, s: &St| -> Vec<St> {
        let i = s.tag as usize;
        let prog = &progs[i];
        product_step(acc, i, prog, &alphabets[i], "c11", s, "C11", &|actions, _obs, d, pauses| {
            // the listing is checked on a third of the states (it costs one more session)
            let p = pauses.last().copied().unwrap_or(Pause::Done);
            if matches!(actions.last().map(|a| &a.cmd), Some(Cmd::BreakAdd(_) | Cmd::BreakRemove(_))) || p == Pause::Breakpoint {
                return break_list_matches(prog, actions, &d.breakpoints());
            }
            None
        })
    };
    // the initial states must already show the `.break` addresses
    let mut pre = Acc::new();
    for (i, prog) in progs.iter().enumerate() {
        let d = prog.reference();
        pre.eval("initial-state");
        match run_real(prog, &[], Tail::Exit, true) {
            Ok(obs) => {
                let got: Vec<u16> = obs.breakpoints.clone().unwrap_or_default().iter().map(|(a, _)| *a).collect();
                if got != d.breakpoints() {
                    pre.violation("C11/dbg/break-directive/wrong-address", format!("{}: `.break` gives breakpoints {got:04x?}, the marked statements are at {:04x?}", prog.name, d.breakpoints()), case_json(prog, "c11", &[], &[], Tail::Exit));
                } else {
                    pre.nontrivial();
                    if !got.is_empty() {
                        pre.gate("break-directive-observed");
                    }
                    if let Some(m) = break_list_matches(prog, &[], &d.breakpoints()) {
                        pre.violation(format!("C11/{}", m.sig), m.what, case_json(prog, "c11", &[], &[], Tail::Exit));
                    }
                }
            }
            Err((sig, what)) => pre.violation(format!("C11/dbg/{sig}"), what, case_json(prog, "c11", &[], &[], Tail::Exit)),
        }
        let _ = i;
    }
    let cfg = bfs::Config { max_depth: depth, dedup: true, state_cap: 3_000_000, wall_cap_s: ctx.tier.pick(45, 1500) };
    let (mut acc, stats) = bfs::explore(roots, &cfg, Some(Env::new(true)), step);
    acc.merge(pre);
    // amounts: many breakpoints at once
    let counts: Vec<usize> = if ctx.tier == crate::report::Tier::Thorough { vec![1, 2, 15, 16, 17, 31, 32, 33, 63, 64, 65, 127, 128, 129, 255, 256, 257, 511, 512, 513, 1023, 1024, 1025, 4095, 4096, 4097, 20000] } else { vec![1, 2, 15, 16, 17, 63, 64, 65, 127, 128, 129, 255, 256, 257, 1023, 1024, 1025, 4097] };
    let parts = crate::isolate::pooled(Some(Env::new(true)), counts.len(), 1, Acc::new, |acc, i| {
        acc.eval("many-breakpoints");
        let mut r = judge_many(counts[i]);
        if r.is_some() {
            r = crate::isolate::confirm_fresh(|| judge_many(counts[i]));
        }
        match r {
            None => {
                acc.nontrivial();
                acc.gate("many-breakpoints-agreed");
                acc.outcome("many-breakpoints/ok".to_string());
            }
            Some(m) => {
                acc.outcome(format!("violation:{}", m.sig));
                acc.violation(format!("C11/{}", m.sig), m.what, json!({"check": "c11", "many_breakpoints": counts[i]}));
            }
        }
    });
    for p in parts {
        acc.merge(p);
    }
    finish(
        ctx,
        acc,
        Level { category: "model_checking", bfs: Some((stats.states, stats.transitions, stats.transitions, stats.max_depth)) },
        "explicit-state BFS over command histories (continue, step, step into {1,3}, step out, reset, goto first, break add/remove in absolute, label+offset and ^offset spelling) on 18 programs: a loop revisiting its body three times with `.break` before the first statement, between any two, on the HALT, after the last statement, doubled, on a labelled statement, with a label of its own, three at once, at origin x4000 and at origins so low (x0002, x0004) that statement indices exceed the origin; a self-branch under a breakpoint; a breakpoint directly before HALT; a subroutine returning onto a breakpoint. Every transition: product of real debugger and reference (paused machine, instruction count, breakpoint set, sortedness), and `break list` output compared with the set after every breakpoint command and breakpoint pause. Plus amounts: n breakpoints (n around every power of two up to 4096; thorough also 20000) added in scrambled order on a straight line of n+2 instructions, three continues, every second one removed in descending order, two more continues; product comparison and `break list` at three cut points. non-trivial = agreeing transitions",
        !stats.capped,
        &["paused-at-breakpoint", "paused-at-halt", "loop-iteration-repeated", "break-directive-observed", "command-refused", "many-breakpoints-agreed"],
        &["reference debugger = DESIGN.md appendix A: the instruction at the resume address executes once, then every arrival at a breakpoint pauses"],
        json!({"depth": depth, "states": stats.states, "per_level": stats.per_level, "capped": stats.capped}),
    )
}

pub fn replay(_ctx: &Ctx, case: &Value) -> Option<Option<String>> {
    if let Some(n) = case["many_breakpoints"].as_u64() {
        return Some(crate::isolate::confirm_fresh(|| judge_many(n as usize)).map(|m| format!("{}: {}", m.sig, m.what)));
    }
    let name = case["program"].as_str()?;
    let hist: Vec<u8> = case["history"].as_array()?.iter().map(|v| v.as_u64().unwrap() as u8).collect();
    let progs = programs11();
    let prog = progs.iter().find(|p| p.name == name)?;
    let alpha = alphabet(prog);
    let actions: Vec<&Action> = hist.iter().map(|i| &alpha[*i as usize]).collect();
    let _ = replay_history;
    Some(crate::isolate::confirm_fresh(|| {
        let obs = match run_real(prog, &actions, Tail::Exit, true) {
            Ok(o) => o,
            Err((sig, what)) => return Some(format!("{sig}: {what}")),
        };
        let (d, pauses) = run_ref(prog, &actions);
        if let Err(m) = compare_paused(prog, &actions, &obs, &d, &pauses) {
            return Some(format!("{}: {}", m.sig, m.what));
        }
        break_list_matches(prog, &actions, &d.breakpoints()).map(|m| format!("{}: {}", m.sig, m.what))
    }))
}
