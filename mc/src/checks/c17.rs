//! C17 — the debugger's view of source and symbols matches the assembler's.

use crate::isolate::{confirm_fresh, pooled_by_flag, Env};
use crate::refmodel::asm::*;
use crate::report::{finish, Acc, Ctx, Level};
use crate::session::{session, SessionResult};
use serde_json::{json, Value};

fn pool() -> Vec<(Stmt, bool)> {
    let l = |s: &str| Target::Label(s.to_string());
    vec![
        (Stmt::Ret, false),
        (Stmt::Named(0x25, "halt"), false),
        (Stmt::Rti, false),
        (Stmt::Add(1, 2, Src2::Reg(3)), false),
        (Stmt::And(4, 5, Src2::Imm(Lit::dec(-3))), false),
        (Stmt::Not(6, 7), false),
        (Stmt::Br(0b101, "brnp".into(), l("second")), false),
        (Stmt::Mem(PcRel::Ld, 0, l("first")), false),
        (Stmt::Ldr(1, 2, Lit::hex(5)), false),
        (Stmt::Jmp(3), false),
        (Stmt::Trap(Lit::hex(0x23)), false),
        (Stmt::Fill(Lit::hex(0xABCD)), false),
        (Stmt::Blkw(Lit::dec(2)), false),
        (Stmt::Stringz("ab".into()), false),
        (Stmt::Stringz("é".into()), false),
        // texts wider than a cell of the breakpoint table whose cut falls inside a 2-byte
        // character, for either parity of the cell width
        (Stmt::Stringz("é".repeat(20)), false),
        (Stmt::Stringz(format!("a{}", "é".repeat(20))), false),
        (Stmt::Push(4), true),
        (Stmt::Rets, true),
    ]
}

pub struct Work {
    prog: Program,
    stack: bool,
    layout: Layout,
}

fn layouts(all: bool) -> Vec<Layout> {
    let mut v = Vec::new();
    for case in [Case::Lower, Case::Upper, Case::Mixed] {
        for sep in [" ", ", ", ","] {
            for colon in [false, true] {
                for comment in 0..3u8 {
                    for indent in ["", "\t"] {
                        for label_own_line in [false, true] {
                            if !all && (label_own_line && comment == 1) {
                                continue;
                            }
                            v.push(Layout { case, sep, colon, label_own_line, comment, blank_lines: comment == 2, end: if indent.is_empty() { 0 } else { 1 }, indent, one_line: false, trailing_sep: label_own_line != colon });
                        }
                    }
                }
            }
        }
    }
    v.push(Layout { one_line: true, ..Layout::PLAIN });
    v
}

pub fn workload(thorough: bool) -> Vec<Work> {
    let mut w = Vec::new();
    let pool = pool();
    let lays = layouts(thorough);
    let origins = [None, Some(0x0200u16), Some(0x7FFE), Some(0xFD00), Some(0x0000)];
    let mut n = 0usize;
    for (a, sa) in &pool {
        for (b, sb) in &pool {
            for variant in 0..3 {
                // variant 0: first statement unlabelled (may be the very first bytes of the file)
                // variant 1: both labelled; .break between; variant 2: .orig in the middle
                let mut prog = Program::default();
                let origin = origins[n % origins.len()];
                n += 1;
                if variant != 2 {
                    if let Some(o) = origin {
                        prog.items.push(Item::Orig(Lit::hex(o)));
                    }
                }
                prog.push(if variant == 0 { None } else { Some("first") }, a.clone());
                if variant == 1 {
                    prog.items.push(Item::Break);
                }
                if variant == 2 {
                    if let Some(o) = origin {
                        prog.items.push(Item::Orig(Lit::hex(o)));
                    }
                }
                prog.push(Some("second"), b.clone());
                if variant == 0 {
                    // make `first` resolvable for references
                    prog.push(Some("first"), Stmt::Named(0x25, "halt"));
                }
                let stride = if thorough { 1 } else { 7 };
                for (li, lay) in lays.iter().enumerate() {
                    if (li + n) % stride != 0 {
                        continue;
                    }
                    // an unlabelled first statement at byte 0 needs no indent and no header comment
                    w.push(Work { prog: prog.clone(), stack: *sa || *sb, layout: *lay });
                }
            }
        }
    }
    // labels that differ only in letter case are different labels
    for names in [["data", "Data", "DATA"], ["Loop", "loop", "LOOP"], ["x_a", "X_a", "x_A"]] {
        for rot in 0..3 {
            let mut prog = Program::default();
            prog.push(Some(names[rot % 3]), Stmt::Add(1, 1, Src2::Imm(Lit::dec(1))));
            prog.push(Some(names[(rot + 1) % 3]), Stmt::Stringz("hi".into()));
            prog.push(Some(names[(rot + 2) % 3]), Stmt::Fill(Lit::hex(0x1234)));
            prog.push(None, Stmt::Named(0x25, "halt"));
            for lay in [Layout::PLAIN, Layout { colon: true, ..Layout::PLAIN }] {
                w.push(Work { prog: prog.clone(), stack: false, layout: lay });
            }
        }
    }
    // seeds from the corpus in plain layout and one busy layout
    for (prog, stack) in crate::gen::programs::seeds() {
        if prog.items.iter().any(|i| matches!(i, Item::Stmt { label: Some(l), .. } if l.starts_with(|c: char| c.is_ascii_digit()))) {
            continue; // labels starting with a digit cannot be written in the command language
        }
        for lay in [Layout::PLAIN, lays[lays.len() / 2]] {
            w.push(Work { prog: prog.clone(), stack, layout: lay });
        }
    }
    w
}

struct Expect {
    script: String,
    /// per query: expected text between its marker and the next marker
    expected: Vec<(String, String)>,
    not_judged: usize,
}

fn build(prog: &Program, printed: &Printed, img: &Image) -> Expect {
    let orig = img.origin() as u32;
    let n = img.words.len() as u32;
    let mut script = String::new();
    let mut expected = Vec::new();
    let mut q = 0;
    let lo = orig.saturating_sub(1);
    let hi = (orig + n + 1).min(0xFFFF);
    for a in lo..=hi {
        script.push_str(&format!("echo Q{q};assembly x{a:04x};"));
        let text = if a >= orig && a < orig + n {
            let item = img.item_of_word[(a - orig) as usize];
            let (_, s, e) = printed.spans.iter().find(|(i, _, _)| *i == item).unwrap();
            printed.text[*s..*e].to_string()
        } else {
            String::new()
        };
        expected.push((format!("assembly x{a:04x}"), format!("{text}\n")));
        q += 1;
    }
    let not_judged = 0;
    let mut pc = orig; // the session starts at the origin and only goto moves it
    for (name, off) in &img.labels {
        for k in [0i64, 1, -1, 3] {
            let target = orig as i64 + *off as i64 + k;
            let spelled = if k == 0 { name.clone() } else if k > 0 { format!("{name}+{k}") } else { format!("{name}{k}") };
            script.push_str(&format!("echo Q{q};goto {spelled};registers;"));
            if target >= orig as i64 && target < 0xFE00 {
                pc = target as u32;
                expected.push((format!("goto {spelled}"), format!("PC x{:04x}", pc)));
            } else {
                expected.push((format!("goto {spelled}"), format!("REFUSED PC x{:04x}", pc)));
            }
            q += 1;
        }
    }
    let _ = prog;
    script.push_str(&format!("echo Q{q};exit"));
    Expect { script, expected, not_judged }
}

/// `None` = holds; `Some((sig, what))` = violation.
pub fn judge(wk_prog: &Program, layout: &Layout, stack: bool) -> Result<Option<(String, String)>, &'static str> {
    let printed = print(wk_prog, layout);
    let Ok(img) = encode(wk_prog, stack) else { return Err("reference rejects the program") };
    if img.origin() as u32 + img.words.len() as u32 >= 0xFE00 {
        return Err("program reaches beyond user space");
    }
    let ex = build(wk_prog, &printed, &img);
    let res = match session(&printed.text, Env::new(stack), Some(&ex.script), 1_000_000) {
        Ok(r) => r,
        Err(stopped) => return Ok(Some((format!("view/panic/{}", stopped.panic_site()), format!("session stopped with {}", stopped.short())))),
    };
    let obs = match res {
        SessionResult::Ran(o) => o,
        SessionResult::AsmFailed(e) => return Ok(Some(("view/assembler-rejected".into(), format!("assembler rejected the program: {}", e.message)))),
        SessionResult::LoadFailed(e) => return Ok(Some(("view/load-failed".into(), e))),
    };
    if let crate::session::Ended::Panic(p) = &obs.ended {
        return Ok(Some((format!("view/panic-in-session/{}", p.split(':').take(2).collect::<Vec<_>>().join(":")), format!("debugger session panicked: {p}"))));
    }
    // split the debugger text at the markers
    let text = obs.dbg;
    let mut parts: Vec<&str> = Vec::new();
    let mut rest = text.as_str();
    for q in 0..=ex.expected.len() {
        let marker = format!("[Q{q}]\n");
        let Some(pos) = rest.find(&marker) else {
            return Ok(Some(("view/marker-missing".into(), format!("marker Q{q} missing in debugger output (ended: {:?})", obs.ended))));
        };
        if q > 0 {
            parts.push(&rest[..pos]);
        }
        rest = &rest[pos + marker.len()..];
    }
    for (i, (query, want)) in ex.expected.iter().enumerate() {
        let got = parts[i];
        if query.starts_with("assembly") {
            if got != want {
                let first_operandless = want.trim_end() == want.trim_end().split(' ').next().unwrap_or("");
                let class = if got == "\n" && want != "\n" {
                    if first_operandless { "shows-nothing-for-operandless-statement" } else { "shows-nothing-for-statement" }
                } else if want == "\n" {
                    "shows-text-for-address-without-statement"
                } else {
                    "shows-wrong-text"
                };
                return Ok(Some((format!("view/assembly/{class}"), format!("`{query}` printed {got:?}, the statement's source text is {want:?}"))));
            }
        } else {
            let pc_line = got.lines().find(|l| l.starts_with("PC ")).unwrap_or("");
            let refused = got.contains("OutOfBounds::Address") || got.contains("Labels::NotFound") || got.contains("CommandError");
            let (want_refused, want_pc) = match want.strip_prefix("REFUSED ") {
                Some(p) => (true, p),
                None => (false, want.as_str()),
            };
            if pc_line != want_pc || refused != want_refused {
                let target_high = want_pc.trim_start_matches("PC x").starts_with(|c: char| "89abcdef".contains(c));
                let class = if refused && !want_refused {
                    if target_high { "label-refused/address>=x8000" } else { "label-refused" }
                } else if !refused && want_refused {
                    "out-of-range-label-accepted"
                } else {
                    "label-resolves-to-wrong-address"
                };
                return Ok(Some((format!("view/goto/{class}"), format!("`{query}` gave {:?}{}, expected {want}", pc_line, if refused { " (refused)" } else { "" }))));
            }
        }
    }
    let _ = ex.not_judged;
    // the breakpoint table (full, non-minimal output): the third column is the statement's text
    if let Some(v) = judge_table(&printed, &img, stack) {
        return Ok(Some(v));
    }
    Ok(None)
}

thread_local! {
    /// rows of the breakpoint table compared by the last `judge` on this thread
    static TABLE_ROWS: std::cell::Cell<u64> = const { std::cell::Cell::new(0) };
}

fn strip_ansi(s: &str) -> String {
    let mut out = String::new();
    let mut it = s.chars().peekable();
    while let Some(c) = it.next() {
        if c == '\x1b' && it.peek() == Some(&'[') {
            for d in it.by_ref() {
                if d.is_ascii_alphabetic() {
                    break;
                }
            }
        } else {
            out.push(c);
        }
    }
    out
}

/// `break add` at every statement address and one past the program, then `break list` with the
/// full (table) output: every row's source column must show the text of the statement at that
/// address (cut to the column width with an ellipsis when longer), and nothing for an address
/// without statement.
fn judge_table(printed: &Printed, img: &Image, stack: bool) -> Option<(String, String)> {
    const SHOWN: usize = 26; // characters of a long text that must at least be recognisable
    let orig = img.origin() as u32;
    let n = img.words.len() as u32;
    if n == 0 || n > 64 {
        return None;
    }
    let mut script = String::new();
    let mut addrs = Vec::new();
    for a in orig..=(orig + n).min(0xFDFF) {
        script.push_str(&format!("break add x{a:04x};"));
        addrs.push(a);
    }
    script.push_str("break list;exit");
    let mut env = Env::new(stack);
    env.minimal = false;
    let obs = match session(&printed.text, env, Some(&script), 1_000_000) {
        Ok(SessionResult::Ran(o)) => o,
        Ok(_) => return None,
        Err(stopped) => return Some((format!("table/panic/{}", stopped.panic_site()), format!("session stopped with {}", stopped.short()))),
    };
    if let crate::session::Ended::Panic(p) = &obs.ended {
        return Some((format!("table/panic-in-session/{}", p.split(':').take(2).collect::<Vec<_>>().join(":")), format!("`break list` session panicked: {p}")));
    }
    let plain = strip_ansi(&obs.dbg);
    let mut rows: std::collections::BTreeMap<u32, String> = Default::default();
    for line in plain.lines() {
        // a row: some cell is `0x` + 4 hex digits; the source text is the cell after the label
        // cell (the third of the table). Borders are presentation: a missing outer border only
        // changes how many empty cells surround the three.
        let cells: Vec<&str> = line.split('│').collect();
        let Some(ai) = cells.iter().position(|c| {
            let t = c.trim();
            t.len() == 6 && t.starts_with("0x") && t[2..].chars().all(|h| h.is_ascii_hexdigit())
        }) else {
            continue;
        };
        if cells.len() < ai + 3 {
            continue;
        }
        if let Ok(a) = u32::from_str_radix(cells[ai].trim().trim_start_matches("0x"), 16) {
            let cell = cells[ai + 2];
            rows.insert(a, cell.strip_prefix(' ').unwrap_or(cell).trim_end().to_string());
        }
    }
    if rows.is_empty() {
        // the table's drawing is presentation: if no row can be recognised at all, the layout is
        // not the one this reader knows and nothing is judged (counted by the missing gate)
        return None;
    }
    for a in addrs {
        let want = if a < orig + n {
            let item = img.item_of_word[(a - orig) as usize];
            let (_, s, e) = printed.spans.iter().find(|(i, _, _)| *i == item).unwrap();
            printed.text[*s..*e].to_string()
        } else {
            String::new()
        };
        if want.contains('\n') {
            continue;
        }
        let Some(got) = rows.get(&a) else {
            return Some(("table/row-missing".into(), format!("`break list` shows no row for the breakpoint at x{a:04x}")));
        };
        let ok = if want.chars().count() <= SHOWN {
            *got == want
        } else {
            let shown: String = got.trim_end_matches('…').to_string();
            shown.chars().count() >= 20 && want.starts_with(&shown)
        };
        TABLE_ROWS.with(|c| c.set(c.get() + 1));
        if !ok {
            let class = if got.is_empty() { "shows-nothing-for-statement" } else if want.is_empty() { "shows-text-for-address-without-statement" } else { "shows-wrong-text" };
            return Some((format!("table/{class}"), format!("breakpoint table row x{a:04x} shows {got:?}, the statement's source text is {want:?}")));
        }
    }
    None
}

/// Labels whose spelling the command language also reads as something else (radix-prefixed
/// integers), and a label after the 65535th statement. Each query is its own case, so that every
/// failing spelling has its own signature.
fn special_queries() -> Vec<(&'static str, String, String, Option<u16>, Option<String>)> {
    // (family, source, location token, address the assembler gave it; None = must be refused without panic)
    let mut v = Vec::new();
    let names = ["b1", "o7", "B0", "x", "o", "b", "b2", "xg", "r8", "_1", "2nd", "9", "r7save", "r0_", "R3x", "pcx"];
    let mut src = String::from(".orig x2fff\nnot r1, r1\n");
    for (i, n) in names.iter().enumerate() {
        src.push_str(&format!("{n} add r0, r0, #{}\n", i));
    }
    src.push_str("last halt\n");
    for (i, n) in names.iter().enumerate() {
        v.push(("label-also-readable-as-something-else", src.clone(), n.to_string(), Some(0x3000 + i as u16), None));
        v.push(("label-also-readable-as-something-else", src.clone(), format!("{n}+1"), Some(0x3001 + i as u16), None));
    }
    let far = ".orig x0\n.blkw xFFFF\nend .break\n".to_string();
    for tok in ["end", "end-1", "end+1"] {
        v.push(("label-after-65535-words", far.clone(), tok.to_string(), None, None));
    }
    // statements and labels x8000 words and more from the origin (distances that do not fit a
    // signed 16-bit quantity), at two origins
    for (orig, pad) in [(0x3000u16, 0x8000u16), (0x3000, 0xBFF0), (0x0000, 0x8000), (0x0000, 0xFD00), (0x0100, 0x7FFE)] {
        let src = format!(".orig x{orig:04X}\nfirst and r0, r0, #0\npad .blkw x{pad:04X}\nfar add r1, r2, #3 ; comment\ndata .fill x1234\nlast halt\n");
        let far = orig + 1 + pad;
        for (tok, addr, text) in [("far", far, "add r1, r2, #3"), ("data", far + 1, ".fill x1234"), ("last", far + 2, "halt"), ("far+1", far + 1, ".fill x1234"), ("last-2", far, "add r1, r2, #3"), ("pad", orig + 1, ""), ("first", orig, "and r0, r0, #0")] {
            let text = if tok == "pad" { format!(".blkw x{pad:04X}") } else { text.to_string() };
            v.push(("statement-x8000-words-from-origin", src.clone(), tok.to_string(), Some(addr), Some(text)));
        }
        v.push(("statement-x8000-words-from-origin", src.clone(), format!("x{:04x}", far), Some(far), Some("add r1, r2, #3".into())));
        v.push(("statement-x8000-words-from-origin", src.clone(), format!("x{:04x}", far - 1), Some(far - 1), Some(format!(".blkw x{pad:04X}"))));
    }
    v
}

fn judge_special(src: &str, tok: &str, want: Option<u16>, text: Option<&str>) -> Option<(String, String)> {
    let script = format!("echo Q0;goto {tok};registers;echo Q1;print {tok};echo Q2;break add {tok};echo Q3;assembly {tok};echo Q4;exit");
    let res = match session(src, Env::new(false), Some(&script), 1_000_000) {
        Ok(r) => r,
        Err(stopped) => return Some((format!("panic/{}", stopped.panic_site()), format!("`goto {tok}`: session stopped with {}", stopped.short()))),
    };
    let obs = match res {
        SessionResult::Ran(o) => o,
        SessionResult::AsmFailed(e) => return Some(("assembler-rejected".into(), e.message)),
        SessionResult::LoadFailed(e) => return Some(("load-failed".into(), e)),
    };
    if let crate::session::Ended::Panic(p) = &obs.ended {
        return Some((format!("panic/{}", p.trim_start_matches("panic at ").split(':').take(2).collect::<Vec<_>>().join(":")), format!("`goto {tok};print {tok};break add {tok}` panicked: {p}")));
    }
    let start = obs.machine.orig;
    match want {
        None => {
            if obs.machine.pc != start {
                return Some(("moved".into(), format!("`goto {tok}` moved PC to x{:04x}", obs.machine.pc)));
            }
            None
        }
        Some(addr) => {
            if obs.machine.pc != addr {
                let seg = obs.dbg.split("[Q1]").next().unwrap_or("");
                let how = if seg.contains("OutOfBounds") || seg.contains("CommandError") || seg.contains("NotFound") { "refused" } else { "resolved elsewhere" };
                return Some((format!("goto/{tok}"), format!("`goto {tok}` must set PC to x{addr:04x} (the address the assembler gave the label); it was {how}, PC = x{:04x}", obs.machine.pc)));
            }
            // `print <label>` shows the word the assembler put there
            let seg = obs.dbg.split("[Q1]\n").nth(1).and_then(|r| r.split("[Q2]").next()).unwrap_or("");
            let word = format!("x{:04x}", obs.machine.mem[addr as usize]);
            if !seg.lines().any(|l| l.trim().eq_ignore_ascii_case(&word)) {
                return Some((format!("print/{tok}"), format!("`print {tok}` must show {word} (the word at x{addr:04x}); it printed {seg:?}")));
            }
            // `assembly <location>` shows the statement that produced the word
            if let Some(text) = text {
                let seg = obs.dbg.split("[Q3]\n").nth(1).and_then(|r| r.split("[Q4]").next()).unwrap_or("");
                if seg != format!("{text}\n") {
                    return Some((format!("assembly/{}", tok.trim_end_matches(|c: char| c.is_ascii_digit() || c == '+' || c == '-')), format!("`assembly {tok}` (x{addr:04x}) printed {seg:?}, the statement's source text is {text:?}")));
                }
            }
            let user_breaks: Vec<u16> = obs.breakpoints.clone().unwrap_or_default().iter().filter(|(_, pre)| !pre).map(|(a, _)| *a).collect();
            if user_breaks != vec![addr] {
                return Some((format!("break-add/{tok}"), format!("`break add {tok}` must add x{addr:04x}, breakpoints are {user_breaks:04x?}")));
            }
            None
        }
    }
}

/// Sources whose statements are long in bytes: `gap` blanks between a mnemonic or directive and its
/// operand (the blanks belong to the statement's text), and a string literal of `gap` 2-byte
/// characters. Returns the source and, per query token, the text `assembly` must print.
fn long_statement_case(gap: usize) -> (String, Vec<(String, String)>) {
    let blanks = " ".repeat(gap);
    let fill = format!(".fill{blanks} x2a");
    let strz = format!(".stringz{blanks} \"hi\"");
    let add = format!("add r1,{blanks} r1, #2");
    // at most 20000 characters: the program must stay inside user space
    let big = format!(".stringz \"{}\"", "é".repeat(gap.min(20000)));
    let src = format!("first add r0, r0, #1\nnum {fill}\ntxt {strz}\nlast {add} ; comment\nhalt\nbig {big}\nend halt\n");
    let q = vec![
        ("first".to_string(), "add r0, r0, #1".to_string()),
        ("num".to_string(), fill),
        ("txt".to_string(), strz.clone()),
        ("txt+2".to_string(), strz),
        ("last".to_string(), add),
        ("last+1".to_string(), "halt".to_string()),
        ("big".to_string(), big.clone()),
        ("end-1".to_string(), big),
        ("end".to_string(), "halt".to_string()),
        ("end+1".to_string(), String::new()),
    ];
    (src, q)
}

fn long_gaps(thorough: bool) -> Vec<usize> {
    let mut v = vec![1, 240, 246, 247, 248, 249, 250, 255, 256, 257, 32760, 65520, 65526, 65527, 65528, 65529, 65530, 65535, 65536, 65537, 70000];
    if thorough {
        v.extend([127, 128, 4095, 4096, 16384, 32767, 32768, 131072, 1 << 20]);
    }
    v
}

fn judge_long(gap: usize) -> Option<(String, String)> {
    let (src, queries) = long_statement_case(gap);
    let mut script = String::new();
    for (i, (tok, _)) in queries.iter().enumerate() {
        script.push_str(&format!("echo Q{i};assembly {tok};"));
    }
    script.push_str(&format!("echo Q{};exit", queries.len()));
    let res = match session(&src, Env::new(false), Some(&script), 1_000_000) {
        Ok(r) => r,
        Err(stopped) => return Some((format!("panic/{}", stopped.panic_site()), format!("session on a source with {gap}-byte gaps stopped with {}", stopped.short()))),
    };
    let obs = match res {
        SessionResult::Ran(o) => o,
        SessionResult::AsmFailed(e) => return Some(("assembler-rejected".into(), e.message)),
        SessionResult::LoadFailed(e) => return Some(("load-failed".into(), e)),
    };
    if let crate::session::Ended::Panic(p) = &obs.ended {
        return Some((format!("panic/{}", p.trim_start_matches("panic at ").split(':').take(2).collect::<Vec<_>>().join(":")), format!("session on a source with {gap}-byte gaps panicked: {p}")));
    }
    let mut rest = obs.dbg.as_str();
    let mut parts: Vec<&str> = Vec::new();
    for q in 0..=queries.len() {
        let marker = format!("[Q{q}]\n");
        let Some(pos) = rest.find(&marker) else { return Some(("marker-missing".into(), format!("marker Q{q} missing in debugger output (ended: {:?})", obs.ended))) };
        if q > 0 {
            parts.push(&rest[..pos]);
        }
        rest = &rest[pos + marker.len()..];
    }
    let brief = |t: &str| -> String {
        let n = t.chars().count();
        if n > 80 { format!("{:?}... ({} bytes, {} blanks)", t.chars().take(40).collect::<String>(), t.len(), t.matches(' ').count()) } else { format!("{t:?}") }
    };
    for (i, (tok, want)) in queries.iter().enumerate() {
        let want = format!("{want}\n");
        if parts[i] != want {
            let class = if want.len() > 65536 { "statement-of-64KiB-or-more" } else if want.len() > 256 { "statement-over-256-bytes" } else { "short-statement" };
            return Some((format!("assembly/{class}"), format!("`assembly {tok}` printed {}, the statement's source text is {}", brief(parts[i]), brief(&want))));
        }
    }
    None
}

pub fn run(ctx: &Ctx) -> i32 {
    let work = workload(ctx.tier == crate::report::Tier::Thorough);
    let parts = pooled_by_flag(work.len(), 8, |i| work[i].stack, Acc::new, |acc, i| {
        let wk = &work[i];
        acc.eval("program-x-layout");
        let mut v = judge(&wk.prog, &wk.layout, wk.stack);
        if matches!(v, Ok(Some(_))) {
            v = confirm_fresh(|| judge(&wk.prog, &wk.layout, wk.stack));
        }
        match v {
            Err(why) => acc.skip(why),
            Ok(None) => {
                acc.nontrivial();
                acc.gate("session-agreed");
                if TABLE_ROWS.with(|c| c.replace(0)) > 0 {
                    acc.gate("breakpoint-table-rows-compared");
                }
                let first = wk.prog.items.iter().find_map(|it| match it { Item::Stmt { stmt, .. } => Some(super::asmcommon::stmt_kind(stmt)), _ => None }).unwrap_or("");
                acc.outcome(format!("agree/first={first}"));
                if i % 997 == 0 {
                    acc.sample(format!("{i}"), json!({"source": print(&wk.prog, &wk.layout).text}));
                }
            }
            Ok(Some((sig, what))) => {
                acc.outcome(format!("violation:{sig}"));
                let printed = print(&wk.prog, &wk.layout);
                acc.violation(format!("C17/{sig}"), what, json!({"source": printed.text, "stack_feature": wk.stack, "program": format!("{:?}", wk.prog), "layout": format!("{:?}", wk.layout)}));
            }
        }
    });
    let mut acc = Acc::merge_all(parts);
    let special = special_queries();
    let parts = crate::isolate::pooled(None, special.len(), 1, Acc::new, |acc, i| {
        let (family, src, tok, want, text) = &special[i];
        acc.eval("special-labels");
        let mut v = judge_special(src, tok, *want, text.as_deref());
        if v.is_some() {
            v = confirm_fresh(|| judge_special(src, tok, *want, text.as_deref()));
        }
        match v {
            None => {
                acc.nontrivial();
                acc.outcome(format!("special/{family}/ok"));
            }
            Some((sig, what)) => {
                acc.outcome(format!("violation:special/{sig}"));
                acc.violation(format!("C17/special/{family}/{sig}"), what, json!({"special": true, "source": src, "token": tok, "want": want, "text": text}));
            }
        }
    });
    for p in parts {
        acc.merge(p);
    }
    let gaps = long_gaps(ctx.tier == crate::report::Tier::Thorough);
    let parts = crate::isolate::pooled(None, gaps.len(), 1, Acc::new, |acc, i| {
        acc.eval("long-statements");
        let mut v = judge_long(gaps[i]);
        if v.is_some() {
            v = confirm_fresh(|| judge_long(gaps[i]));
        }
        match v {
            None => {
                acc.nontrivial();
                acc.gate("long-statements-agreed");
                acc.outcome("long-statements/ok".to_string());
            }
            Some((sig, what)) => {
                acc.outcome(format!("violation:long-statements/{sig}"));
                acc.violation(format!("C17/long-statements/{sig}"), what, json!({"long_gap": gaps[i]}));
            }
        }
    });
    for p in parts {
        acc.merge(p);
    }
    finish(
        ctx,
        acc,
        Level { category: "model_checking", bfs: None },
        "bounded-exhaustive enumeration: every ordered pair of 19 statement shapes (operand-less, operand-ful, every directive, multi-word, multi-byte strings, stack extension) in 3 arrangements (first statement at byte 0 / labelled with .break between / .orig in the middle), 5 origins (default, x0200, x7FFE crossing x8000, xFD00, x0000), a layout product (case, separators incl. commas, label colon, label on own line, trailing and full-line comments with multi-byte characters, indentation, .end); one debugger session per program queries `assembly` at EVERY address from origin-1 to origin+n+1 and `goto label`, `label+1`, `label-1`, `label+3` for every label; compared with the printer's statement spans and the reference symbol table; a second session in full (non-minimal) output adds a breakpoint at every statement address and one past the program and reads the source column of the `break list` table (same oracle); plus 35 single-query sessions on labels whose spelling the command language can also read as an integer or register (b1, o7, B0, x, o, b, b2, xg, r8, _1, 2nd, 9, r7save, r0_, R3x, pcx, each bare and with +1: goto, print and break add) and on a label after the 65535th word; 45 more on statements and labels x8000 words and more from the origin (5 origin / padding pairs; goto, print, break add and assembly by label, label+offset and absolute address); plus sessions on a source whose statements are long in bytes (g blanks between directive/mnemonic and operand, a string of min(g, 20000) 2-byte characters; g over 21 values around 2^8 and 2^16 and beyond, thorough adds 9 more up to 2^20), querying `assembly` at 10 label-relative locations. non-trivial = sessions in which every query agreed",
        true,
        &["session-agreed", "long-statements-agreed"],
        &["the printer records the exact byte span of each statement it emits", "minimal-mode debugger text is read through the tee hook"],
        json!({}),
    )
}

pub fn replay(_ctx: &Ctx, case: &Value) -> Option<Option<String>> {
    if let Some(g) = case["long_gap"].as_u64() {
        return Some(confirm_fresh(|| judge_long(g as usize)).map(|(s, w)| format!("{s}: {w}")));
    }
    if case["special"].as_bool() == Some(true) {
        let (src, tok) = (case["source"].as_str()?.to_string(), case["token"].as_str()?.to_string());
        let want = case["want"].as_u64().map(|w| w as u16);
        let text = case["text"].as_str().map(|t| t.to_string());
        return Some(confirm_fresh(|| judge_special(&src, &tok, want, text.as_deref())).map(|(s, w)| format!("{s}: {w}")));
    }
    // The AST is not serialised; replay re-runs the generator and finds the program by its text.
    let src = case["source"].as_str()?;
    for wk in workload(true) {
        if print(&wk.prog, &wk.layout).text == src {
            let v = confirm_fresh(|| judge(&wk.prog, &wk.layout, wk.stack));
            return Some(match v {
                Ok(Some((s, w))) => Some(format!("{s}: {w}")),
                _ => None,
            });
        }
    }
    Some(Some("case not found in generator".into()))
}
