//! C20 — the interactive line editor keeps its cursor inside the line.
//! Explicit-state BFS over key histories on the real `Terminal` (driven through its own `read()`
//! with an injected key queue) in lock-step with `refmodel::editor`.

use crate::bfs;
use crate::isolate::{guard, Stopped, Stop};
use crate::refmodel::editor::{Editor, Key};
use crate::report::{finish, Acc, Ctx, Level};
use lace::debugger::VerifTerminal;
use lace::VerifKey;
use serde_json::{json, Value};

pub const ALPHABET: [Key; 15] = [
    Key::Char('a'),
    Key::Char(' '),
    // white space that is not the plain space (U+3000, 3 bytes): a line of it is blank too
    Key::Char('\u{3000}'),
    Key::Char(';'),
    Key::Char('é'),
    Key::Char('𝄞'),
    Key::Backspace,
    Key::Delete,
    Key::Left,
    Key::Right,
    Key::CtrlLeft,
    Key::CtrlRight,
    Key::Up,
    Key::Down,
    Key::Enter,
];

fn to_real(k: Key) -> VerifKey {
    match k {
        Key::Char(c) => VerifKey::Char(c),
        Key::Backspace => VerifKey::Backspace,
        Key::Delete => VerifKey::Delete,
        Key::Left => VerifKey::Left,
        Key::Right => VerifKey::Right,
        Key::CtrlLeft => VerifKey::CtrlLeft,
        Key::CtrlRight => VerifKey::CtrlRight,
        Key::Up => VerifKey::Up,
        Key::Down => VerifKey::Down,
        Key::Enter => VerifKey::Enter,
    }
}

pub fn key_name(k: Key) -> String {
    match k {
        Key::Char(c) => format!("'{c}'"),
        other => format!("{other:?}"),
    }
}

pub const HISTORIES: [&[&str]; 3] = [&[], &["ab c", "é;x"], &["ab", " "]];

#[derive(Debug, Clone, PartialEq, Eq)]
pub struct View {
    pub line: String,
    pub cursor: usize,
    pub index: usize,
    pub history: Vec<String>,
    pub hidden: String,
    pub commands: Vec<String>,
}

thread_local! {
    /// What the history file of the next real terminal is: 0 none, 1 a working scratch file,
    /// 2 /dev/full (every append fails with ENOSPC), 3 a descriptor opened read-only (EBADF).
    static FILE_MODE: std::cell::Cell<u8> = const { std::cell::Cell::new(0) };
}

pub const FILE_MODES: [&str; 4] = ["no-file", "working-file", "dev-full", "read-only-descriptor"];

/// Replay `keys` on a fresh real terminal; returns the view or how it stopped.
pub fn real(hist: usize, keys: &[Key]) -> Result<View, Stopped> {
    let history: Vec<String> = HISTORIES[hist].iter().map(|s| s.to_string()).collect();
    let mut term = VerifTerminal::verif_new(history);
    match FILE_MODE.with(|m| m.get()) {
        1 => {
            let dir = std::env::var("LACEMC_SCRATCH").unwrap_or_else(|_| "/verif/target/scratch".into());
            let _ = std::fs::create_dir_all(&dir);
            let path = format!("{dir}/history-{}-{:?}", std::process::id(), std::thread::current().id());
            if let Ok(f) = std::fs::File::create(&path) {
                term.verif_set_history_file(f);
            }
            let _ = std::fs::remove_file(&path);
        }
        2 => {
            if let Ok(f) = std::fs::OpenOptions::new().write(true).open("/dev/full") {
                term.verif_set_history_file(f);
            }
        }
        3 => {
            if let Ok(f) = std::fs::File::open("/dev/null") {
                term.verif_set_history_file(f);
            }
        }
        _ => {}
    }
    term.verif_push_keys(keys.iter().map(|k| to_real(*k)));
    let mut commands = Vec::new();
    // every command costs at least one key (Enter or a ';' typed or recalled from the history):
    // a reader that keeps returning commands without consuming keys is cut here
    let history_semis: usize = HISTORIES[hist].iter().map(|h| h.matches(';').count() + 1).sum();
    let cap = 8 + (keys.len() + 1) * (history_semis + 2);
    loop {
        if commands.len() > cap {
            return Err(Stopped::Panic { msg: format!("the reader returned more than {cap} commands for {} keys without running out of input", keys.len()), loc: "reader-never-finishes:0:0".into() });
        }
        match guard(|| term.verif_read()) {
            Ok(Some(c)) => commands.push(c),
            Ok(None) => break,
            Err(Stopped::Stop(Stop::KeysExhausted)) => break,
            Err(e) => return Err(e),
        }
    }
    let (line, cursor, index, history) = term.verif_view();
    let (hidden, _) = term.verif_buffer();
    Ok(View { line, cursor, index, history, hidden, commands })
}

/// Measured once: the unspecified trailing-white-space corner of Ctrl+Right (see refmodel::editor).
pub fn variant() -> bool {
    use std::sync::OnceLock;
    static V: OnceLock<bool> = OnceLock::new();
    *V.get_or_init(|| {
        let keys = [Key::Char('a'), Key::Char(' '), Key::CtrlLeft, Key::CtrlRight];
        matches!(real(0, &keys), Ok(v) if v.cursor == 1)
    })
}

/// Measured once: does Enter on a blank focused history entry submit it? (see refmodel::editor;
/// a panic there is reported by the search itself)
pub fn variant_blank() -> bool {
    use std::sync::OnceLock;
    static V: OnceLock<bool> = OnceLock::new();
    *V.get_or_init(|| matches!(real(2, &[Key::Up, Key::Enter]), Ok(v) if !v.commands.is_empty()))
}

pub fn reference(hist: usize, keys: &[Key]) -> View {
    let mut ed = Editor::new(HISTORIES[hist].iter().map(|s| s.to_string()).collect());
    ed.w_stops_at_trailing_space = variant();
    ed.blank_history_submits = variant_blank();
    let mut commands = Vec::new();
    for k in keys {
        if let Some(line) = ed.key(*k) {
            for piece in line.split(';') {
                commands.push(piece.to_string());
            }
        }
    }
    View {
        line: ed.current().into_iter().collect(),
        cursor: ed.cursor,
        index: ed.index,
        history: ed.history.clone(),
        hidden: ed.next.iter().collect(),
        commands,
    }
}

use crate::bfs::St;

fn digest(v: &View, hist: usize) -> u64 {
    // Submitted commands are output, not state: what remains able to influence the future is the
    // focused line, cursor, focus index, history list and the hidden new-line buffer.
    let s = format!("{hist}|{}|{}|{}|{:?}|{}", v.line, v.cursor, v.index, v.history, v.hidden);
    crate::util::hash_str(&s)
}

fn keys_of(ids: &[u8]) -> Vec<Key> {
    ids.iter().map(|i| ALPHABET[*i as usize]).collect()
}

/// Compare one history; `Some((sig, what))` on violation.
pub fn judge(hist: usize, keys: &[Key]) -> (Option<(String, String)>, Option<View>) {
    let expect = reference(hist, keys);
    match real(hist, keys) {
        Err(stopped) => {
            let last = keys.last().map(|k| key_name(*k)).unwrap_or_default();
            let last_kind = match keys.last() {
                Some(Key::Char(_)) => "Char".to_string(),
                Some(k) => format!("{k:?}"),
                None => "none".into(),
            };
            (
                Some((
                    format!("editor/panic/{}/{}", last_kind, stopped.panic_site()),
                    format!("line editor stopped with {} on key {last}", stopped.short()),
                )),
                None,
            )
        }
        Ok(view) => {
            let chars = view.line.chars().count();
            if view.cursor > chars {
                return (
                    Some((
                        "editor/cursor-beyond-line".into(),
                        format!("cursor {} > {} characters of {:?}", view.cursor, chars, view.line),
                    )),
                    Some(view),
                );
            }
            let multibyte = keys.iter().any(|k| matches!(k, Key::Char(c) if c.len_utf8() > 1))
                || HISTORIES[hist].iter().any(|h| !h.is_ascii());
            let mb = if multibyte { "multibyte" } else { "ascii" };
            if view.line != expect.line || view.hidden != expect.hidden {
                return (
                    Some((format!("editor/line-differs/{mb}"), format!("line {:?} (hidden {:?}) but reference holds {:?} (hidden {:?})", view.line, view.hidden, expect.line, expect.hidden))),
                    Some(view),
                );
            }
            if view.cursor != expect.cursor {
                let last_kind = match keys.last() {
                    Some(Key::Char(_)) => "Char".to_string(),
                    Some(k) => format!("{k:?}"),
                    None => "none".into(),
                };
                return (
                    Some((format!("editor/cursor-differs/{last_kind}/{mb}"), format!("cursor {} but reference {} on {:?}", view.cursor, expect.cursor, view.line))),
                    Some(view),
                );
            }
            if view.commands != expect.commands {
                return (
                    Some((format!("editor/submitted-differs/{mb}"), format!("submitted {:?} but reference {:?}", view.commands, expect.commands))),
                    Some(view),
                );
            }
            if view.history != expect.history || view.index != expect.index {
                return (
                    Some((format!("editor/history-differs/{mb}"), format!("history {:?}@{} but reference {:?}@{}", view.history, view.index, expect.history, expect.index))),
                    Some(view),
                );
            }
            (None, Some(view))
        }
    }
}

/// Keys as replayable codes: a character is its code point, an editing key its alphabet index
/// plus 0x200000 (no character is that large).
fn key_codes(keys: &[Key]) -> Vec<u64> {
    keys.iter()
        .map(|k| match k {
            Key::Char(c) => *c as u64,
            other => 0x200000 + ALPHABET.iter().position(|a| a == other).unwrap() as u64,
        })
        .collect()
}

fn keys_of_codes(codes: &[u64]) -> Option<Vec<Key>> {
    codes.iter().map(|c| if *c >= 0x200000 { ALPHABET.get((*c - 0x200000) as usize).copied() } else { char::from_u32(*c as u32).map(Key::Char) }).collect()
}

/// The key templates of the character sweep, instantiated for the character `c`: a line that puts
/// `c` next to a letter, to punctuation, to a space and to itself, then every number of word
/// motions from either end followed by an insertion; deletions around it; a line of `c` alone
/// (blank or not); and a submitted line recalled from history and edited.
pub fn sweep_templates(c: char) -> Vec<Vec<Key>> {
    let line = [Key::Char('a'), Key::Char(c), Key::Char(';'), Key::Char(c), Key::Char('a'), Key::Char(' '), Key::Char(c), Key::Char(c), Key::Char(';')];
    let mut v: Vec<Vec<Key>> = Vec::new();
    for i in 0..=7usize {
        let mut k = line.to_vec();
        k.extend(std::iter::repeat(Key::CtrlLeft).take(i));
        k.extend([Key::Char('x'), Key::Enter]);
        v.push(k);
        let mut k = line.to_vec();
        k.extend(std::iter::repeat(Key::CtrlLeft).take(9));
        k.extend(std::iter::repeat(Key::CtrlRight).take(i));
        k.extend([Key::Char('x'), Key::Enter]);
        v.push(k);
    }
    for j in 0..=3usize {
        let mut k = line.to_vec();
        k.extend(std::iter::repeat(Key::Left).take(j));
        k.extend([Key::Backspace, Key::Delete, Key::Char('x'), Key::Enter]);
        v.push(k);
    }
    v.push(vec![Key::Char(c), Key::Enter, Key::Char('a'), Key::Enter]);
    v.push(vec![Key::Char(c), Key::Char(c), Key::Enter, Key::Up, Key::Char('a'), Key::Enter]);
    v.push(vec![Key::Char(c), Key::Char('a'), Key::Enter, Key::Up, Key::CtrlLeft, Key::Char('x'), Key::Enter]);
    v.push(vec![Key::Char('a'), Key::Char(c), Key::Enter, Key::Up, Key::Up, Key::Down, Key::CtrlLeft, Key::CtrlRight, Key::Char('x'), Key::Enter]);
    v
}

fn case_json(hist: usize, keys: &[Key]) -> Value {
    if keys.iter().any(|k| !ALPHABET.contains(k)) {
        return json!({
            "initial_history": HISTORIES[hist],
            "keys": keys.iter().map(|k| key_name(*k)).collect::<Vec<_>>(),
            "key_codes": key_codes(keys),
            "hist": hist,
            "expected": format!("{:?}", reference(hist, keys)),
            "observed": format!("{:?}", real(hist, keys)),
        });
    }
    json!({
        "initial_history": HISTORIES[hist],
        "keys": keys.iter().map(|k| key_name(*k)).collect::<Vec<_>>(),
        "key_ids": keys.iter().map(|k| ALPHABET.iter().position(|a| a == k).unwrap()).collect::<Vec<_>>(),
        "hist": hist,
        "expected": format!("{:?}", reference(hist, keys)),
        "observed": format!("{:?}", real(hist, keys)),
    })
}

pub fn run(ctx: &Ctx) -> i32 {
    let dedup_depth = ctx.tier.pick(7, 8);
    let raw_depth = ctx.tier.pick(4, 6);

    let step = |acc: &mut Acc, s: &St| -> Vec<St> {
        let mut out = Vec::new();
        for a in 0..ALPHABET.len() as u8 {
            let mut ids = s.hist.clone();
            ids.push(a);
            let keys = keys_of(&ids);
            acc.eval("transition");
            let (verdict, view) = judge(s.tag as usize, &keys);
            match verdict {
                Some((sig, what)) => {
                    acc.outcome(format!("violation:{sig}"));
                    acc.violation(sig, what, case_json(s.tag as usize, &keys));
                }
                None => {
                    let view = view.unwrap();
                    if view.line.chars().any(|c| c.len_utf8() > 1) && view.cursor > 0 {
                        acc.gate("multibyte-left-of-cursor");
                    }
                    if !view.commands.is_empty() {
                        acc.gate("line-submitted");
                    }
                    if view.index < view.history.len() {
                        acc.gate("history-focused");
                    }
                    acc.outcome(format!("cursor={} len={} idx={}", view.cursor.min(4), view.line.chars().count().min(4), view.index.min(3)));
                    if ids.len() <= 3 && a % 5 == 0 {
                        acc.sample(format!("{:?}", ids), json!({"keys": keys.iter().map(|k| key_name(*k)).collect::<Vec<_>>(), "line": view.line, "cursor": view.cursor, "submitted": view.commands}));
                    }
                    acc.nontrivial();
                    out.push(St { tag: s.tag, digest: digest(&view, s.tag as usize), hist: ids });
                }
            }
        }
        out
    };

    let roots: Vec<St> = (0..HISTORIES.len())
        .map(|h| {
            let v = reference(h, &[]);
            St { tag: h as u32, hist: vec![], digest: digest(&v, h) }
        })
        .collect();

    // 1. deduplicated search (deep)
    let cfg = bfs::Config { max_depth: dedup_depth, dedup: true, state_cap: 40_000_000, wall_cap_s: ctx.tier.pick(40, 900) };
    let (mut acc, stats) = bfs::explore(roots.clone(), &cfg, None, step);
    // 2. raw enumeration without state merging (shallower): cross-checks that merging only merged
    //    states with equal futures -- every raw history is judged on its own.
    let cfg_raw = bfs::Config { max_depth: raw_depth, dedup: false, state_cap: usize::MAX, wall_cap_s: ctx.tier.pick(40, 900) };
    let (acc_raw, stats_raw) = bfs::explore(roots, &cfg_raw, None, step);
    let raw_transitions = stats_raw.transitions;
    acc.merge(acc_raw);
    // 3. character sweep: every character of the Basic Multilingual Plane (thorough: of planes
    //    0-3 and 14) that is not a control character, in every template of `sweep_templates`
    let top: u32 = ctx.tier.pick(0x1_0000, 0x4_0000);
    let mut blocks: Vec<u32> = (0..top / 256).collect();
    if top > 0x1_0000 {
        blocks.extend(0xE_0000 / 256..0xE_1000 / 256);
    } else {
        // a few characters beyond the BMP in quick too: astral letters, digits, symbols
        blocks.extend([0x1_D400 / 256, 0x1_D700 / 256, 0x1_F300 / 256, 0x2_0000 / 256]);
    }
    let parts = crate::isolate::pooled(None, blocks.len(), 4, Acc::new, |acc, bi| {
        for cp in blocks[bi] * 256..blocks[bi] * 256 + 256 {
            let Some(c) = char::from_u32(cp) else { continue };
            if c.is_control() {
                continue;
            }
            let class = if c.is_whitespace() { "space" } else if c.is_alphanumeric() { "word" } else { "other" };
            for (ti, keys) in sweep_templates(c).iter().enumerate() {
                acc.eval("sweep");
                let (verdict, view) = judge(0, keys);
                match verdict {
                    Some((sig, what)) => {
                        acc.outcome(format!("violation:{sig}"));
                        acc.violation(format!("{sig}/sweep-{class}"), what, case_json(0, keys));
                    }
                    None => {
                        acc.nontrivial();
                        acc.gate("character-sweep");
                        let view = view.unwrap();
                        acc.outcome(format!("sweep/{class}/t{ti}/submitted={}", view.commands.len()));
                    }
                }
            }
        }
    });
    for p in parts {
        acc.merge(p);
    }
    // 5. the history file: the same editor with a file to append to - one that works, one on
    //    which every append fails (ENOSPC), one that is not writable (EBADF). What is submitted
    //    and recalled must not depend on it.
    {
        const KEYS5: [Key; 6] = [Key::Char('a'), Key::Char(';'), Key::Enter, Key::Up, Key::Down, Key::Backspace];
        let len = ctx.tier.pick(5usize, 7);
        let total: usize = (1..=len).map(|l| crate::util::pow(KEYS5.len(), l)).sum();
        let parts = crate::isolate::pooled(None, total.div_ceil(512), 1, Acc::new, |acc, b| {
            for idx in (b * 512)..((b + 1) * 512).min(total) {
                // idx -> (length, index within the length)
                let (mut l, mut off) = (1usize, idx);
                while off >= crate::util::pow(KEYS5.len(), l) {
                    off -= crate::util::pow(KEYS5.len(), l);
                    l += 1;
                }
                let keys: Vec<Key> = crate::util::seq(off, KEYS5.len(), l).iter().map(|k| KEYS5[*k]).collect();
                for mode in 1..=3u8 {
                    for hist in [0usize, 1] {
                        acc.eval("history-file");
                        FILE_MODE.with(|m| m.set(mode));
                        let (verdict, _) = judge(hist, &keys);
                        FILE_MODE.with(|m| m.set(0));
                        match verdict {
                            Some((sig, what)) => {
                                acc.outcome(format!("violation:{sig}"));
                                acc.violation(format!("{sig}/history-file-{}", FILE_MODES[mode as usize]), format!("history file {}: {what}", FILE_MODES[mode as usize]), json!({"initial_history": HISTORIES[hist], "key_codes": key_codes(&keys), "hist": hist, "file_mode": mode}));
                            }
                            None => {
                                acc.nontrivial();
                                acc.gate("history-file-modes");
                            }
                        }
                    }
                }
            }
        });
        for p in parts {
            acc.merge(p);
        }
    }
    // 4. amounts: long lines and long histories
    let mut longs: Vec<(String, Vec<Key>)> = Vec::new();
    let line_lengths: Vec<usize> = if ctx.tier == crate::report::Tier::Thorough { vec![255, 256, 257, 1000, 4096, 5000, 65535, 65536, 65537] } else { vec![255, 256, 257, 1000, 4096, 5000, 65536] };
    for n in line_lengths {
        // a line of n characters (every third one multi-byte, a space every 7th), edited at both ends and in the middle
        let mut k: Vec<Key> = (0..n).map(|i| Key::Char(if i % 7 == 6 { ' ' } else if i % 3 == 0 { 'é' } else { 'a' })).collect();
        k.extend([Key::CtrlLeft, Key::Char('x'), Key::Backspace, Key::Delete]);
        k.extend(std::iter::repeat(Key::Left).take(n / 2));
        k.extend([Key::Char('𝄞'), Key::CtrlRight, Key::Delete, Key::CtrlLeft, Key::CtrlLeft, Key::Backspace]);
        k.extend(std::iter::repeat(Key::CtrlLeft).take(n / 6 + 2));
        k.extend([Key::Char('y'), Key::Delete, Key::Enter, Key::Up, Key::Char('z'), Key::Enter]);
        longs.push((format!("line-of-{n}"), k));
    }
    for m in [10usize, 100, 255, 256, 257, 1000] {
        // m submitted lines, then Up past the oldest, Down past the newest, an edit in the middle
        let mut k: Vec<Key> = Vec::new();
        for i in 0..m {
            k.extend(format!("l{i}").chars().map(Key::Char));
            k.push(Key::Enter);
        }
        k.extend(std::iter::repeat(Key::Up).take(m + 2));
        k.extend([Key::Char('a'), Key::Enter]);
        k.extend(std::iter::repeat(Key::Up).take(m / 2));
        k.extend(std::iter::repeat(Key::Down).take(m / 4));
        k.extend([Key::Char('b'), Key::Enter, Key::Up, Key::Up]);
        k.extend(std::iter::repeat(Key::Down).take(m + 3));
        k.extend([Key::Char('c'), Key::Enter]);
        longs.push((format!("history-of-{m}"), k));
    }
    let parts = crate::isolate::pooled(None, longs.len(), 1, Acc::new, |acc, i| {
        let (name, keys) = &longs[i];
        acc.eval("amounts");
        // every prefix that ends after one of the last 40 keys is a history of its own (lines
        // of more than 10 000 characters: 4 of them - a replay costs seconds there)
        let cuts: Vec<usize> = if keys.len() > 10_000 { vec![keys.len() - 30, keys.len() - 12, keys.len() - 6, keys.len()] } else { (keys.len().saturating_sub(40)..=keys.len()).collect() };
        for cut in cuts {
            let (verdict, _) = judge(0, &keys[..cut]);
            match verdict {
                Some((sig, what)) => {
                    acc.outcome(format!("violation:{sig}"));
                    let what = if what.len() > 400 { format!("{}...", what.chars().take(400).collect::<String>()) } else { what };
                    acc.violation(format!("{sig}/amounts"), format!("{name}, first {cut} keys: {what}"), json!({"initial_history": HISTORIES[0], "key_codes": key_codes(&keys[..cut]), "hist": 0, "amounts": name}));
                    return;
                }
                None => {}
            }
        }
        acc.nontrivial();
        acc.gate("long-lines-and-histories");
        acc.outcome(format!("amounts/{}", name.split('-').next().unwrap_or("")));
    });
    for p in parts {
        acc.merge(p);
    }

    let rule = "BFS over key histories (15-key alphabet incl. 2-byte, 3-byte (the white-space character U+3000) and 4-byte characters, every editing key, Enter) from 3 initial histories (empty, two entries incl. multi-byte and ';', one with a blank entry as an externally written history file can contain); each transition replays the history on a fresh real Terminal through its read() and on the reference editor; distinct_nontrivial counts transitions whose real and reference views agreed (each is a distinct history). Plus a character sweep: every non-control character of the Basic Multilingual Plane and 4 blocks beyond it (thorough: planes 0-3 and the first 4096 of plane 14) in 24 key templates (the character next to a letter, punctuation, a space and itself; 0..7 word motions from either end then an insertion; Backspace/Delete around it; a line of it alone; recalled from history and edited). Plus amounts: lines of 255..5000 and of 65536 (thorough: 65535..65537) characters edited at both ends and in the middle, and histories of 10..1000 submitted lines walked past both ends (each of the last 40 prefixes judged). Plus the history file: every key sequence up to length 5 (thorough 7) over {a, ;, Enter, Up, Down, Backspace} from two initial histories with the history given a working file, /dev/full (every append fails) and a read-only descriptor";
    finish(
        ctx,
        acc,
        Level { category: "model_checking", bfs: Some((stats.states, stats.transitions + raw_transitions, stats.transitions + raw_transitions, stats.max_depth)) },
        rule,
        !stats.capped && !stats_raw.capped,
        &["multibyte-left-of-cursor", "line-submitted", "history-focused", "character-sweep", "long-lines-and-histories", "history-file-modes"],
        &["fresh Terminal per history equals a fresh process (no TTY, no history file)", "reference editor semantics follow the doc comments of terminal.rs (history focus, Vim w/b word motions)"],
        json!({"measured_variant_w_stops_at_trailing_space": variant(), "measured_variant_blank_history_submits": variant_blank(), "dedup_depth": dedup_depth, "raw_depth": raw_depth, "dedup": {"states": stats.states, "transitions": stats.transitions, "per_level": stats.per_level, "capped": stats.capped}, "raw": {"transitions": raw_transitions, "per_level": stats_raw.per_level}}),
    )
}

pub fn replay(_ctx: &Ctx, case: &Value) -> Option<Option<String>> {
    let hist = case["hist"].as_u64()? as usize;
    if let Some(codes) = case["key_codes"].as_array() {
        let codes: Vec<u64> = codes.iter().filter_map(|v| v.as_u64()).collect();
        let keys = keys_of_codes(&codes)?;
        let mode = case["file_mode"].as_u64().unwrap_or(0) as u8;
        FILE_MODE.with(|m| m.set(mode));
        let (a, _) = judge(hist, &keys);
        let (b, _) = judge(hist, &keys);
        FILE_MODE.with(|m| m.set(0));
        if a != b {
            return Some(Some("NONDETERMINISTIC replay".into()));
        }
        return Some(a.map(|(sig, what)| format!("{sig}: {what}")));
    }
    let ids: Vec<u8> = case["key_ids"].as_array()?.iter().map(|v| v.as_u64().unwrap() as u8).collect();
    let keys = keys_of(&ids);
    let (a, _) = judge(hist, &keys);
    let (b, _) = judge(hist, &keys);
    if a != b {
        return Some(Some("NONDETERMINISTIC replay".into()));
    }
    Some(a.map(|(sig, what)| format!("{sig}: {what}")))
}
