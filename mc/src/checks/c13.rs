//! C13 — debugger writes are confined to user space and to the named target.
//! One real session per (pre-history, command): full machine state and breakpoint list after the
//! command are compared with the reference, which computes every target in the integers.

use super::dbgcommon::*;
use crate::isolate::{confirm_fresh, pooled, Env};
use crate::refmodel::asm::*;
use crate::refmodel::dbg::{Cmd, Loc};
use crate::report::{finish, Acc, Ctx, Level, Tier};
use serde_json::{json, Value};

pub fn programs13() -> Vec<Prog> {
    let mk = |name: &'static str, orig: Option<u16>| -> Prog {
        let mut p = Program::default();
        if let Some(o) = orig {
            p.items.push(Item::Orig(Lit::hex(o)));
        }
        p.push(Some("first"), Stmt::Add(1, 1, Src2::Imm(Lit::dec(1))));
        p.push(Some("second"), Stmt::Mem(PcRel::St, 1, lbl("data")));
        p.push(None, Stmt::Add(2, 2, Src2::Imm(Lit::dec(2))));
        p.push(Some("end"), Stmt::Named(0x25, "halt"));
        p.push(Some("data"), Stmt::Fill(Lit::hex(0x1234)));
        Prog::new(name, p, true)
    };
    let mut v = vec![mk("at-x3000", None), mk("at-x0200", Some(0x0200)), mk("at-x7FFE", Some(0x7FFE)), mk("at-xFDF0", Some(0xFDF0))];
    // a program whose body crosses xFE00, with `.break` on statements beyond user space: the
    // breakpoint list then holds addresses that no command may touch
    let mut p = Program::default();
    p.items.push(Item::Orig(Lit::hex(0xFDFD)));
    p.push(Some("first"), Stmt::Add(1, 1, Src2::Imm(Lit::dec(1))));
    p.items.push(Item::Break);
    p.push(Some("second"), Stmt::Add(2, 2, Src2::Imm(Lit::dec(2))));
    p.push(Some("end"), Stmt::Named(0x25, "halt"));
    p.items.push(Item::Break);
    p.push(Some("data"), Stmt::Fill(Lit::hex(0x1234)));
    p.items.push(Item::Break);
    p.push(None, Stmt::Fill(Lit::hex(0x5678)));
    p.items.push(Item::Break);
    v.push(Prog::new("crossing-xFE00", p, true));
    // origin x0000: sums below zero have nothing to wrap or saturate into but user space
    v.push(mk("at-x0000", Some(0x0000)));
    // origin above xFE00: [origin, xFE00) is empty, every write must be refused
    v.push(mk("at-xFF00", Some(0xFF00)));
    // labels more than x8000 words from the origin (index 7): `data` at xF000 of a program at x3000
    let mut p = Program::default();
    p.push(Some("first"), Stmt::Add(1, 1, Src2::Imm(Lit::dec(1))));
    p.push(Some("second"), Stmt::Add(2, 2, Src2::Imm(Lit::dec(2))));
    p.push(Some("end"), Stmt::Named(0x25, "halt"));
    p.push(Some("pad"), Stmt::Blkw(Lit::hex(0xBFFD)));
    p.push(Some("data"), Stmt::Fill(Lit::hex(0x1234)));
    p.push(Some("last"), Stmt::Fill(Lit::hex(0x5678)));
    v.push(Prog::new("label-xC000-words-from-origin", p, true));
    v
}

/// Pre-histories: the initial state, after two instructions (PC moved, memory stored), with a
/// breakpoint present.
pub fn prehistories() -> Vec<Vec<Action>> {
    vec![
        vec![],
        vec![Action::of(Cmd::StepInto(2))],
        vec![Action::of(Cmd::BreakAdd(Loc::Label("second".into(), 0))), Action::of(Cmd::StepInto(1)), Action::of(Cmd::MoveReg(4, 0x4444))],
    ]
}

/// A fourth pre-history, per program: the PC moved by an evaluated jump (not by goto or by
/// executing the program), so that anything remembered about "the current PC" is stale.
pub fn pre_of(prog: &Prog, pres: &[Vec<Action>], idx: usize) -> Vec<Action> {
    if idx == 3 {
        prehistory_eval_jump(prog)
    } else if idx == 4 {
        // the PC taken outside user space by an evaluated jump (x0100; for the program at x0000
        // that is inside): `^offset` must still be measured from where the PC really is
        vec![Action::of(Cmd::MoveReg(1, 0x0100)), Action::eval("jmp r1", Some(0xC040))]
    } else {
        pres[idx].clone()
    }
}

pub fn prehistory_eval_jump(prog: &Prog) -> Vec<Action> {
    vec![Action::of(Cmd::MoveReg(1, prog.addr_of("end"))), Action::eval("jmp r1", Some(0xC040))]
}

pub struct Work {
    prog: usize,
    pre: usize,
    action: Action,
    space: &'static str,
}

fn offsets() -> Vec<i32> {
    vec![0, 1, -1, 2, -2, 5, 0x7F, -0x80, 0x7FFF, -0x7FFF, -0x8000, 0x7FFE, 0x1000, -0x1000, 0x2E00, -0x2E00]
}

pub fn workload(tier: Tier, progs: &[Prog]) -> Vec<Work> {
    let mut w = Vec::new();
    let stride = tier.pick(1, 1);
    // A: every absolute address x {move, goto, break add, break remove}, decimal and hex spelling
    for (pi, _) in progs.iter().enumerate().take(tier.pick(2, 4)) {
        let mut a: u32 = 0;
        while a <= 0xFFFF {
            let addr = a as u16;
            let hex = a % 2 == 0;
            let sp = |c: Cmd, verb: &str| -> Action {
                if hex {
                    Action::of(c)
                } else {
                    let tail = match &c {
                        Cmd::MoveMem(_, v) => format!(" x{v:04x}"),
                        _ => String::new(),
                    };
                    Action::spelled(&format!("{verb} {addr}{tail}"), c)
                }
            };
            for pre in 0..3 {
                if pre != 0 && a % 5 != 0 {
                    continue;
                }
                w.push(Work { prog: pi, pre, action: sp(Cmd::MoveMem(Loc::Abs(addr), 0xA5A5), "move"), space: "A/absolute-address" });
                w.push(Work { prog: pi, pre, action: sp(Cmd::Goto(Loc::Abs(addr)), "goto"), space: "A/absolute-address" });
                w.push(Work { prog: pi, pre, action: sp(Cmd::BreakAdd(Loc::Abs(addr)), "break add"), space: "A/absolute-address" });
                w.push(Work { prog: pi, pre, action: sp(Cmd::BreakRemove(Loc::Abs(addr)), "break remove"), space: "A/absolute-address" });
            }
            a += stride;
        }
    }
    // A2: the program crossing xFE00: every address around the boundary and every predefined
    // breakpoint address, all four commands, from the initial state
    if progs.len() > 4 {
        for a in (0xFDF8u32..=0xFE08).chain([0xFFFF, 0x0000]) {
            let addr = a as u16;
            for c in [Cmd::MoveMem(Loc::Abs(addr), 0xA5A5), Cmd::Goto(Loc::Abs(addr)), Cmd::BreakAdd(Loc::Abs(addr)), Cmd::BreakRemove(Loc::Abs(addr))] {
                w.push(Work { prog: 4, pre: 0, action: Action::of(c), space: "A2/crossing-xFE00" });
            }
        }
        for l in ["first", "second", "end", "data"] {
            for o in [0i32, 1, 2, 3, -1] {
                for c in [Cmd::BreakRemove(Loc::Label(l.to_string(), o)), Cmd::BreakAdd(Loc::Label(l.to_string(), o)), Cmd::Goto(Loc::Label(l.to_string(), o))] {
                    w.push(Work { prog: 4, pre: 0, action: Action::of(c), space: "A2/crossing-xFE00" });
                }
            }
        }
    }
    // A3: origin above xFE00 - nothing is user space
    if progs.len() > 6 {
        for a in [0x0000u16, 0x0001, 0x0010, 0x0123, 0x00FF, 0x0100, 0x3000, 0x7FFF, 0x8000, 0xFDFF, 0xFE00, 0xFEFF, 0xFF00, 0xFF01, 0xFF05, 0xFFFE, 0xFFFF] {
            for c in [Cmd::MoveMem(Loc::Abs(a), 0xA5A5), Cmd::Goto(Loc::Abs(a)), Cmd::BreakAdd(Loc::Abs(a)), Cmd::BreakRemove(Loc::Abs(a))] {
                w.push(Work { prog: 6, pre: 0, action: Action::of(c), space: "A3/origin-above-user-space" });
            }
        }
    }
    // B: label +/- offset and ^offset at the boundaries, from every pre-history (different PCs)
    for (pi, p) in progs.iter().enumerate().filter(|(i, _)| *i != 4 && *i != 6) {
        let orig = p.image.origin() as i32;
        let mut offs = offsets();
        // offsets that land exactly on origin-1, origin, xFDFF, xFE00 from the labels / PCs
        for base in [orig, orig + 1, orig + 2, orig + 4] {
            for target in [orig - 1, orig, 0xFDFF, 0xFE00, 0xFFFF, 0x10000, 0, -1] {
                let o = target - base;
                if (-0x8000..=0x7FFF).contains(&o) {
                    offs.push(o);
                }
            }
        }
        offs.sort();
        offs.dedup();
        for pre in 0..5 {
            for o in &offs {
                for label in ["first", "second", "data", "end"] {
                    let l = Loc::Label(label.to_string(), *o);
                    w.push(Work { prog: pi, pre, action: Action::of(Cmd::MoveMem(l.clone(), 0x5A5A)), space: "B/label-offset" });
                    w.push(Work { prog: pi, pre, action: Action::of(Cmd::Goto(l.clone())), space: "B/label-offset" });
                    w.push(Work { prog: pi, pre, action: Action::of(Cmd::BreakAdd(l.clone())), space: "B/label-offset" });
                    w.push(Work { prog: pi, pre, action: Action::of(Cmd::BreakRemove(l)), space: "B/label-offset" });
                }
                let l = Loc::PcOff(*o);
                w.push(Work { prog: pi, pre, action: Action::of(Cmd::MoveMem(l.clone(), 0x5A5A)), space: "B/pc-offset" });
                w.push(Work { prog: pi, pre, action: Action::of(Cmd::Goto(l.clone())), space: "B/pc-offset" });
                w.push(Work { prog: pi, pre, action: Action::of(Cmd::BreakAdd(l.clone())), space: "B/pc-offset" });
                w.push(Work { prog: pi, pre, action: Action::of(Cmd::BreakRemove(l)), space: "B/pc-offset" });
            }
            // offsets that do not fit 16 bits: refused by the parser, nothing changes
            for text in ["move ^32768 1", "move first+32768 1", "goto ^-32769", "goto data-40000", "break add ^65536", "break add end+99999", "move x10000 1", "goto 65536", "move nolabel 1", "goto First"] {
                w.push(Work { prog: pi, pre, action: Action::spelled(text, Cmd::Eval(None)), space: "B/overflowing-offset" });
            }
        }
    }
    // C: move into every register, every boundary value, several spellings
    for r in 0..8u8 {
        for v in [0u16, 1, 0x7FFF, 0x8000, 0xFFFF, 0x3000, 0xFDFF, 0xFE00, 0x1234] {
            w.push(Work { prog: 0, pre: (r % 3) as usize, action: Action::of(Cmd::MoveReg(r, v)), space: "C/move-register" });
            w.push(Work { prog: 1, pre: 1, action: Action::spelled(&format!("move R{r} {v}"), Cmd::MoveReg(r, v)), space: "C/move-register" });
            if v >= 0x8000 {
                w.push(Work { prog: 0, pre: 0, action: Action::spelled(&format!("move r{r} {}", v as i16), Cmd::MoveReg(r, v)), space: "C/move-register" });
            }
        }
    }
    // E: every 16-bit value into a register and into a memory word (the value path of `move`)
    for v in 0..=0xFFFFu16 {
        w.push(Work { prog: 0, pre: 0, action: Action::of(Cmd::MoveReg((v % 8) as u8, v)), space: "E/every-value" });
        let mem = Cmd::MoveMem(Loc::Label("data".to_string(), 0), v);
        let action = match v % 3 {
            0 => Action::of(mem),
            1 => Action::spelled(&format!("move data {v}"), mem),
            _ => Action::spelled(&format!("move data #{}", v as i16), mem),
        };
        w.push(Work { prog: (v % 2) as usize, pre: 1, action, space: "E/every-value" });
    }
    // D: inspection commands never change anything
    for pi in 0..4 {
        for pre in 0..3 {
            for text in ["print r0", "print r7", "print ^", "print ^-1", "print x0000", "print xFFFF", "print first", "print data+1", "print data-32768", "registers", "assembly", "assembly x0000", "assembly xFFFF", "assembly second", "assembly ^1", "break list", "echo hello", "help"] {
                w.push(Work { prog: pi, pre, action: Action::spelled(text, Cmd::Registers), space: "D/inspection" });
            }
        }
    }
    w
}

pub fn judge(prog: &Prog, pre: &[Action], action: &Action) -> Result<(bool, String), Mismatch> {
    let mut actions: Vec<&Action> = pre.iter().collect();
    actions.push(action);
    let obs = run_real(prog, &actions, Tail::Exit, true).map_err(|(sig, what)| Mismatch { sig: format!("confine/{sig}"), what })?;
    let (d, pauses) = run_ref(prog, &actions);
    let refused = matches!(pauses.last(), Some(crate::refmodel::dbg::Pause::Refused));
    match compare_paused(prog, &actions, &obs, &d, &pauses) {
        Ok(_) => Ok((refused, format!("{:?}", pauses.last()))),
        Err(m) => {
            // name what kind of target it was
            let target = match &action.cmd {
                Cmd::MoveMem(l, _) | Cmd::Goto(l) | Cmd::BreakAdd(l) | Cmd::BreakRemove(l) => match l {
                    Loc::Abs(a) => {
                        if d.user(*a as i64) { "absolute-in-user-space" } else if *a < prog.image.origin() { "absolute-below-origin" } else { "absolute>=xFE00" }
                    }
                    Loc::Label(..) => if refused { "label-offset-outside" } else { "label-offset-inside" },
                    Loc::PcOff(_) => if refused { "pc-offset-outside" } else { "pc-offset-inside" },
                },
                Cmd::MoveReg(..) => "register",
                _ => "none",
            };
            Err(Mismatch { sig: format!("confine/{}/{}/{}", cmd_kind(&action.cmd), target, m.sig.split('/').nth(1).unwrap_or("?")), what: format!("`{}`: {}", action.text, m.what) })
        }
    }
}

pub fn run(ctx: &Ctx) -> i32 {
    let _ = super::variant::measured();
    let progs = programs13();
    let pres = prehistories();
    let work = workload(ctx.tier, &progs);
    let parts = pooled(Some(Env::new(true)), work.len(), 32, Acc::new, |acc, i| {
        let wk = &work[i];
        acc.eval(wk.space);
        let mut r = judge(&progs[wk.prog], &pre_of(&progs[wk.prog], &pres, wk.pre), &wk.action);
        if r.is_err() {
            r = confirm_fresh(|| judge(&progs[wk.prog], &pre_of(&progs[wk.prog], &pres, wk.pre), &wk.action));
        }
        match r {
            Ok((refused, pause)) => {
                acc.nontrivial();
                acc.gate(if refused { "refused-and-unchanged" } else { "accepted-and-exact" });
                acc.outcome(format!("{}/{}/{}", wk.space, cmd_kind(&wk.action.cmd), pause));
                if i % 20011 == 0 {
                    acc.sample(format!("{i}"), json!({"program": progs[wk.prog].name, "pre": script_of(&pre_of(&progs[wk.prog], &pres, wk.pre).iter().collect::<Vec<_>>(), Tail::Eof), "command": wk.action.text, "reference": pause}));
                }
            }
            Err(m) => {
                acc.outcome(format!("violation:{}", m.sig));
                acc.violation(format!("C13/{}", m.sig), m.what, json!({"program": progs[wk.prog].name, "program_index": wk.prog, "pre_index": wk.pre, "source": progs[wk.prog].text, "script": format!("{};{};exit", script_of(&pre_of(&progs[wk.prog], &pres, wk.pre).iter().collect::<Vec<_>>(), Tail::Eof), wk.action.text), "work_index": i, "tier": ctx.tier.name()}));
            }
        }
    });
    let mut acc = Acc::merge_all(parts);
    // F: what `print` shows for every 16-bit value in a register and in a memory word
    let parts = pooled(Some(Env::new(true)), 65536 / 64, 1, Acc::new, |acc, b| {
        for v in (b * 64) as u32..(b * 64 + 64) as u32 {
            let v = v as u16;
            acc.eval("F/print-every-value");
            let acts = [Action::of(Cmd::MoveReg(3, v)), Action::of(Cmd::PrintReg(3)), Action::of(Cmd::MoveMem(Loc::Label("data".to_string(), 0), v)), Action::of(Cmd::PrintMem(Loc::Label("data".to_string(), 0)))];
            let actions: Vec<&Action> = acts.iter().collect();
            let judge = || -> Option<(String, String)> {
                let obs = match run_real(&progs[0], &actions, Tail::Exit, true) {
                    Ok(o) => o,
                    Err((sig, what)) => return Some((format!("print/{sig}"), what)),
                };
                let shown: Vec<&str> = obs.dbg.lines().map(|l| l.trim()).filter(|l| l.len() == 5 && l.starts_with('x')).collect();
                let want = format!("x{v:04x}");
                if shown.len() != 2 || shown.iter().any(|l| !l.eq_ignore_ascii_case(&want)) {
                    return Some(("print/shows-another-value".into(), format!("`move r3 x{v:04x}; print r3; move data x{v:04x}; print data` printed {shown:?}, expected {want} twice")));
                }
                None
            };
            let mut r = judge();
            if r.is_some() {
                r = confirm_fresh(judge);
            }
            match r {
                None => {
                    acc.nontrivial();
                    acc.gate("printed-value-read-back");
                }
                Some((sig, what)) => {
                    acc.outcome(format!("violation:{sig}"));
                    acc.violation(format!("C13/{sig}"), what, json!({"print_value": v}));
                }
            }
        }
    });
    for p in parts {
        acc.merge(p);
    }
    finish(
        ctx,
        acc,
        Level { category: "model_checking", bfs: None },
        "bounded-exhaustive enumeration, one real debugger session per (program, pre-history, command): A every absolute address 0..xFFFF (stride 7 in quick) x {move, goto, break add, break remove} in hex and decimal spelling at origins x3000 and x0200 (thorough: also x7FFE, xFDF0), from three pre-histories (initial; after two instructions; with a breakpoint and a changed register); B label+/-offset on four labels and ^offset with offsets at the signed-16-bit boundaries and those landing exactly on origin-1, origin, xFDFF, xFE00, xFFFF, x10000, 0, -1, at four origins incl. one whose labels straddle x8000, plus offsets that overflow 16 bits, unknown and case-differing labels; C move into each register x 9 boundary values x 3 spellings; D every inspection command; E every 16-bit value moved into a register and into a memory word (three spellings); F `print` of a register and of a memory word after every 16-bit value was moved there shows that value. Oracle: the reference computes targets in the integers: outside [origin, xFE00) => refused and registers, PC, CC, all 65,536 memory words and the breakpoint list are unchanged; inside => exactly the named word / register / PC / breakpoint changes. non-trivial = sessions that agreed",
        true,
        &["refused-and-unchanged", "accepted-and-exact", "printed-value-read-back"],
        &["reference = refmodel::dbg (targets computed in the integers)"],
        json!({}),
    )
}

pub fn replay(ctx: &Ctx, case: &Value) -> Option<Option<String>> {
    if let Some(v) = case["print_value"].as_u64() {
        let v = v as u16;
        let progs = programs13();
        let acts = [Action::of(Cmd::MoveReg(3, v)), Action::of(Cmd::PrintReg(3)), Action::of(Cmd::MoveMem(Loc::Label("data".to_string(), 0), v)), Action::of(Cmd::PrintMem(Loc::Label("data".to_string(), 0)))];
        let actions: Vec<&Action> = acts.iter().collect();
        return Some(confirm_fresh(|| match run_real(&progs[0], &actions, Tail::Exit, true) {
            Ok(obs) => {
                let shown: Vec<String> = obs.dbg.lines().map(|l| l.trim().to_string()).filter(|l| l.len() == 5 && l.starts_with('x')).collect();
                let want = format!("x{v:04x}");
                if shown.len() != 2 || shown.iter().any(|l| !l.eq_ignore_ascii_case(&want)) { Some(format!("printed {shown:?}, expected {want} twice")) } else { None }
            }
            Err((sig, what)) => Some(format!("{sig}: {what}")),
        }));
    }
    let progs = programs13();
    let pres = prehistories();
    let tier = if case["tier"].as_str() == Some("thorough") { Tier::Thorough } else { Tier::Quick };
    let _ = ctx;
    let work = workload(tier, &progs);
    let i = case["work_index"].as_u64()? as usize;
    let wk = work.get(i)?;
    Some(confirm_fresh(|| judge(&progs[wk.prog], &pre_of(&progs[wk.prog], &pres, wk.pre), &wk.action)).err().map(|m| format!("{}: {}", m.sig, m.what)))
}
