//! C03 — running an image follows the machine model from load to stop.

use super::variant::measured;
use crate::cli::{be_bytes, program_output, Lace};
use crate::isolate::{confirm_fresh, pooled, Env};
use crate::refmodel::asm::*;
use crate::refmodel::vm::{self, Io, Machine, RunEnd};
use crate::report::{finish, Acc, Ctx, Level, Tier};
use crate::session::{load_only, machine_diff, machine_diff_kind, run_image, Ended};
use serde_json::{json, Value};

const FUEL: u64 = 300;

/// `Ok(None)` holds, `Ok(Some)` violation, `Err` not judged.
pub fn judge_image(image: &[u16], stack: bool, fuel: u64) -> Result<Option<(String, String)>, &'static str> {
    let var = measured();
    let Some(mut m) = Machine::load(image) else { return Err("image is not loadable (C06)") };
    let loaded = m.clone();
    let mut io = Io::new(&[]);
    let r = vm::run(&mut m, stack, var, &mut io, fuel);
    if r.end == RunEnd::Unspecified {
        return Err("reference run reaches RTI");
    }
    // load-time invariants
    match load_only(image, Env::new(stack)) {
        Ok(Ok(real)) => {
            if let Some(d) = machine_diff(&real, &loaded) {
                return Ok(Some((format!("run/load/{}", machine_diff_kind(&real, &loaded).unwrap_or("?")), format!("machine right after loading differs from the model: {d}"))));
            }
        }
        Ok(Err(e)) => return Ok(Some(("run/load/refused".into(), format!("loadable image refused: {e:?}")))),
        Err(s) => return Ok(Some((format!("run/load/panic/{}", s.panic_site()), s.short()))),
    }
    let k = if r.end == RunEnd::Fuel { fuel } else { fuel + 1 };
    let obs = match run_image(image, Env::new(stack), k) {
        Ok(Ok(o)) => o,
        Ok(Err(e)) => return Ok(Some(("run/load/refused".into(), format!("{e:?}")))),
        Err(s) => return Ok(Some((format!("run/panic/{}", s.panic_site()), s.short()))),
    };
    let want = match r.end {
        RunEnd::Normal => Ended::Returned,
        RunEnd::OutOfBounds => Ended::Exit(0xEE),
        RunEnd::Exit(c) => Ended::Exit(c),
        RunEnd::Fuel => Ended::Fuel,
        RunEnd::Unspecified => unreachable!(),
    };
    if obs.ended != want {
        let kind = match (&obs.ended, &want) {
            (Ended::Panic(p), _) => format!("panic/{}", p.split(':').take(2).collect::<Vec<_>>().join(":").replace("panic at ", "")),
            (Ended::Fuel, _) => "keeps-running-where-model-stops".to_string(),
            (_, Ended::Fuel) => "stops-where-model-keeps-running".to_string(),
            (a, b) => format!("ends-{a:?}-model-{b:?}").replace(' ', ""),
        };
        return Ok(Some((format!("run/stop/{kind}"), format!("run ended {:?} after {} instructions; the machine model ends {:?} after {}", obs.ended, obs.counters.execs, want, r.steps))));
    }
    if obs.counters.execs != r.steps {
        return Ok(Some(("run/instruction-count".into(), format!("{} instructions executed, model executes {}", obs.counters.execs, r.steps))));
    }
    if let Some(d) = machine_diff(&obs.machine, &m) {
        return Ok(Some((format!("run/final-state/{}", machine_diff_kind(&obs.machine, &m).unwrap_or("?")), format!("final machine differs from the model: {d}"))));
    }
    if io.out_unjudged || io.out.contains('\x1b') {
        return Err("program output in a corner left open (see C02)");
    }
    if obs.out.replace('\0', "") != io.out.replace('\0', "") {
        return Ok(Some(("run/output".into(), format!("printed {:?}, model prints {:?}", obs.out.chars().take(40).collect::<String>(), io.out.chars().take(40).collect::<String>()))));
    }
    Ok(None)
}

fn end_class(image: &[u16], stack: bool, fuel: u64) -> String {
    let Some(mut m) = Machine::load(image) else { return "unloadable".into() };
    let mut io = Io::new(&[]);
    let r = vm::run(&mut m, stack, measured(), &mut io, fuel);
    format!("{:?}/steps{}/out{}", r.end, r.steps.min(3), io.out.chars().count().min(2))
}

/// 256-word alphabet for multi-word images: every opcode with boundary operands.
pub fn alphabet(n: usize) -> Vec<u16> {
    let mut v: Vec<u16> = vec![
        0xF025, 0x0000, 0x0FFF, 0x0E00, 0x0E01, 0x0FFE, 0x0401, 0x0801, 0x0201, 0x1021, 0x103F, 0x1001, 0x1240, 0x5020, 0x503F, 0x5000, 0x2000, 0x21FF, 0x2001, 0x3000,
        0x31FF, 0x3001, 0x4800, 0x4FFF, 0x4801, 0x4000, 0x41C0, 0x6000, 0x603F, 0x6040, 0x7000, 0x703F, 0x7040, 0x903F, 0x927F, 0xA000, 0xA1FF, 0xB000, 0xB1FF, 0xC000,
        0xC1C0, 0xC040, 0xD000, 0xD400, 0xD800, 0xDC00, 0xDC01, 0xDFFF, 0xD5C0, 0xD1C0, 0xE000, 0xE1FF, 0xE001, 0xF020, 0xF021, 0xF022, 0xF023, 0xF024, 0xF026, 0xF027,
        0xF000, 0xF0FF, 0xF028, 0x8000, 0xFFFF, 0x3E00, 0x7FFF,
    ];
    // pad deterministically with a spread of all opcodes
    let mut x: u32 = 0x1234;
    while v.len() < n {
        x = x.wrapping_mul(1103515245).wrapping_add(12345) & 0x7FFF_FFFF;
        let w = (x >> 8) as u16;
        if w >> 12 != 8 && !v.contains(&w) {
            v.push(w);
        }
    }
    v.truncate(n);
    v
}

/// Structured images that terminate by construction (or are cut by fuel), with parameters.
pub fn templates() -> Vec<(&'static str, Vec<u16>, bool)> {
    let mut v = Vec::new();
    let l = |s: &str| Target::Label(s.to_string());
    for k in 0..=5 {
        let mut p = Program::default();
        p.push(None, Stmt::And(1, 1, Src2::Imm(Lit::dec(0))));
        p.push(None, Stmt::Add(1, 1, Src2::Imm(Lit::dec(k))));
        p.push(Some("loop"), Stmt::Add(2, 2, Src2::Imm(Lit::dec(1))));
        p.push(None, Stmt::Add(1, 1, Src2::Imm(Lit::dec(-1))));
        p.push(None, Stmt::Br(0b001, "brp".into(), l("loop")));
        p.push(None, Stmt::Named(0x25, "halt"));
        v.push(("counted-loop", encode(&p, false).unwrap().raw(), false));
    }
    for depth in 0..=2 {
        // nested JSR with R7 saved in R4..R6
        let mut p = Program::default();
        p.push(None, Stmt::Jsr(l("f0")));
        p.push(None, Stmt::Named(0x25, "halt"));
        for d in 0..=depth {
            let name = format!("f{d}");
            p.push(Some(&name), Stmt::Add(4 + d as u8 % 3, 7, Src2::Imm(Lit::dec(0))));
            p.push(None, Stmt::Add(0, 0, Src2::Imm(Lit::dec(1))));
            if d < depth {
                p.push(None, Stmt::Jsr(l(&format!("f{}", d + 1))));
            }
            p.push(None, Stmt::Add(7, 4 + d as u8 % 3, Src2::Imm(Lit::dec(0))));
            p.push(None, Stmt::Ret);
        }
        v.push(("nested-jsr-ret", encode(&p, false).unwrap().raw(), false));
    }
    for n in 0..=4 {
        // recursive CALL/RETS: f(n) = n + f(n-1)
        let mut p = Program::default();
        p.push(None, Stmt::Add(0, 0, Src2::Imm(Lit::dec(n))));
        p.push(None, Stmt::Call(l("f")));
        p.push(None, Stmt::Named(0x26, "putn"));
        p.push(None, Stmt::Named(0x25, "halt"));
        p.push(Some("f"), Stmt::Add(0, 0, Src2::Imm(Lit::dec(0))));
        p.push(None, Stmt::Br(0b110, "brnz".into(), l("done")));
        p.push(None, Stmt::Push(0));
        p.push(None, Stmt::Add(0, 0, Src2::Imm(Lit::dec(-1))));
        p.push(None, Stmt::Call(l("f")));
        p.push(None, Stmt::Pop(1));
        p.push(None, Stmt::Add(0, 0, Src2::Reg(1)));
        p.push(Some("done"), Stmt::Rets);
        v.push(("recursive-call-rets", encode(&p, true).unwrap().raw(), true));
    }
    {
        // self-modifying: overwrite the next-but-one instruction with `add r3 r3 #7`
        let mut p = Program::default();
        p.push(None, Stmt::Mem(PcRel::Ld, 0, l("patch")));
        p.push(None, Stmt::Mem(PcRel::St, 0, l("slot")));
        p.push(Some("slot"), Stmt::Named(0x25, "halt"));
        p.push(None, Stmt::Named(0x27, "reg"));
        p.push(None, Stmt::Named(0x25, "halt"));
        p.push(Some("patch"), Stmt::Fill(Lit::hex(0x16E7)));
        v.push(("self-modifying", encode(&p, false).unwrap().raw(), false));
    }
    v.push(("runs-off-its-end", vec![0x3000, 0x1021, 0x1021, 0x1021], false));
    v.push(("runs-off-its-end", vec![0x0000, 0x1021], false));
    v.push(("empty-program", vec![0x3000], false));
    // computed jumps: LD R1, target ; JMP R1 ; HALT ; target: .fill X
    for target in [0xFFFFu16, 0x2FFF, 0x0000, 0xFE00, 0xFDFF, 0x3002, 0x3000] {
        v.push(("computed-jump", vec![0x3000, 0x2202, 0xC040, 0xF025, target], false));
    }
    // branch below origin, branch to the implicit halt, JSR to xFDFF+
    v.push(("branch-below-origin", vec![0x3000, 0x1020, 0x0FFD], false));
    v.push(("branch-far-forward", vec![0x3000, 0x1020, 0x0EFF], false));
    // address wrap: LDR R1, R2, #1 with R2 = xFFFF ; STR R1, R2, #2
    v.push(("address-wrap", vec![0x0010, 0x9480, 0x6281, 0x7282, 0x1261, 0xF025], false));
    // output traps: OUT of non-ASCII, PUTS, PUTSP packed with odd length, PUTN, REG
    v.push(("out-non-ascii", vec![0x3000, 0x2002, 0xF021, 0xF025, 0x00E9], false));
    v.push(("puts", vec![0x3000, 0xE002, 0xF022, 0xF025, 0x0048, 0x0169, 0x00FF, 0x0000], false));
    v.push(("putsp", vec![0x3000, 0xE002, 0xF024, 0xF025, 0x6548, 0x6C6C, 0x006F, 0x0000], false));
    v.push(("putn-reg", vec![0x3000, 0x1025, 0xF026, 0xF027, 0xF025], false));
    // packed strings with a zero low byte in front of a character, first and in the middle
    v.push(("putsp-zero-low-byte", vec![0x3000, 0xE002, 0xF024, 0xF025, 0x4241, 0x5800, 0x4443, 0x0000], false));
    v.push(("putsp-zero-low-byte", vec![0x3000, 0xE002, 0xF024, 0xF025, 0x5800, 0x4241, 0x0000], false));
    // unpacked strings with a word xNN00 in the middle and in front: only x0000 ends the string
    v.push(("puts-zero-low-byte", vec![0x3000, 0xE002, 0xF022, 0xF025, 0x0041, 0x0100, 0x0042, 0x0000], false));
    v.push(("puts-zero-low-byte", vec![0x3000, 0xE002, 0xF022, 0xF025, 0x5800, 0x0041, 0x0000], false));
    // OUT of every byte value, one image each for four ranges
    for chunk in 0..4u16 {
        // build: for k in 0..64: LD R0, table[k] ; OUT  -- table follows the code
        let mut code = Vec::new();
        for k in 0..64u16 {
            let ld_at = 2 * k; // word index of this LD within the code
            let table_index = 129 + k; // code is 128 words + HALT
            let off = table_index as i32 - (ld_at as i32 + 1);
            code.push(0x2000 | (off as u16 & 0x1FF));
            code.push(0xF021);
        }
        code.push(0xF025);
        for k in 0..64u16 {
            code.push(0x3100 | (chunk * 64 + k)); // garbage in the high byte must be ignored
        }
        let mut img = vec![0x3000];
        img.extend(code);
        v.push(("out-every-byte", img, false));
    }
    // spin forever (cut by fuel) while storing into own code
    v.push(("spin-with-store", vec![0x3000, 0x1021, 0x3001, 0x0FFD, 0x0000], false));
    // programs at the top of user space
    v.push(("top-of-user-space", vec![0xFDFE, 0x1021], false));
    v.push(("top-of-user-space", vec![0xFDFF, 0x1021], false));
    v.push(("top-of-user-space", vec![0xFDFD, 0x1021, 0x1021, 0x1021], false));
    v.push(("stack-gate", vec![0x3000, 0x1021, 0xD400, 0x1021], false));
    v.push(("stack-default-sp", vec![0x3000, 0xD400, 0xD040, 0xF025], true));
    // an ESC character among others, through every character-printing trap: the `--minimal`
    // output drops the ESC itself (not judged), every other character must still be printed
    v.push(("esc-among-others-putsp", vec![0x3000, 0xE002, 0xF024, 0xF025, 0x6948, 0x411B, 0x0021, 0x0000], false));
    v.push(("esc-among-others-putsp-high-byte", vec![0x3000, 0xE002, 0xF024, 0xF025, 0x1B48, 0x4241, 0x0000], false));
    v.push(("esc-among-others-puts", vec![0x3000, 0xE002, 0xF022, 0xF025, 0x0048, 0x001B, 0x0041, 0x005B, 0x0021, 0x0000], false));
    v.push(("esc-among-others-out", vec![0x3000, 0x2006, 0xF021, 0x2006, 0xF021, 0x2003, 0xF021, 0xF025, 0x001B, 0x0041], false));
    v
}

pub fn run(ctx: &Ctx) -> i32 {
    let tier = ctx.tier;
    let _ = measured();
    // (a) one-word images, (b) two- and three-word images, (c) origins, (d) templates
    let two = alphabet(tier.pick(128, 2048));
    let three = alphabet(tier.pick(24, 128));
    let four = alphabet(tier.pick(8, 40));
    let origin_stride = tier.pick(16, 1);
    let tmpl = templates();
    let n_a = 65536;
    let n_b2 = two.len() * two.len();
    let n_b3 = three.len().pow(3);
    let n_b4 = four.len().pow(4);
    let n_c = 0x10000 / origin_stride;
    let n_d = tmpl.len();
    let total = n_a + n_b2 + n_b3 + n_b4 + n_c + n_d;
    let make = |idx: usize| -> (&'static str, Vec<u16>, Option<bool>) {
        if idx < n_a {
            ("a/one-word", vec![0x3000, idx as u16], None)
        } else if idx < n_a + n_b2 {
            let i = idx - n_a;
            ("b/two-words", vec![0x3000, two[i / two.len()], two[i % two.len()]], None)
        } else if idx < n_a + n_b2 + n_b3 {
            let i = idx - n_a - n_b2;
            let k = three.len();
            ("b/three-words", vec![0x3000, three[i / (k * k)], three[(i / k) % k], three[i % k]], None)
        } else if idx < n_a + n_b2 + n_b3 + n_b4 {
            let i = idx - n_a - n_b2 - n_b3;
            let k = four.len();
            ("b/four-words", vec![0x3000, four[i / (k * k * k)], four[(i / (k * k)) % k], four[(i / k) % k], four[i % k]], None)
        } else if idx < n_a + n_b2 + n_b3 + n_b4 + n_c {
            let o = ((idx - n_a - n_b2 - n_b3 - n_b4) * origin_stride) as u16;
            // LEA R0,#1 ; ST R0,#1 ; ADD R1,R1,#1 ; (implicit HALT) -- touches addresses around itself
            ("c/every-origin", vec![o, 0xE001, 0x3001, 0x1261], Some(false))
        } else {
            let (name, img, stack) = &tmpl[idx - n_a - n_b2 - n_b3 - n_b4 - n_c];
            (name, img.clone(), Some(*stack))
        }
    };
    let mut all = Acc::new();
    for flag in [false, true] {
        let parts = pooled(Some(Env::new(flag)), total, 64, Acc::new, |acc, idx| {
            let (space, image, only) = make(idx);
            if let Some(f) = only {
                if f != flag {
                    return;
                }
            } else if !flag && image[1..].iter().all(|w| w >> 12 != 0xD) && space != "a/one-word" {
                // images without opcode xD behave identically under both flags (that is C18's
                // subject); run them once, with the flag on
                return;
            }
            acc.eval(space);
            let mut v = judge_image(&image, flag, FUEL);
            if matches!(v, Ok(Some(_))) {
                v = confirm_fresh(|| judge_image(&image, flag, FUEL));
            }
            match v {
                Err(why) => acc.skip(why),
                Ok(None) => {
                    acc.nontrivial();
                    let class = end_class(&image, flag, FUEL);
                    if class.starts_with("Normal") { acc.gate("normal-end"); }
                    if class.starts_with("OutOfBounds") { acc.gate("exception-end"); }
                    if class.starts_with("Fuel") { acc.gate("cut-by-fuel"); }
                    if class.starts_with("Exit(1)") { acc.gate("exit-1"); }
                    if class.contains("out1") || class.contains("out2") { acc.gate("printed-something"); }
                    acc.outcome(format!("{space}/{class}"));
                    if idx % 20011 == 0 || space.len() > 14 && idx % 7 == 0 {
                        acc.sample(format!("{idx}"), json!({"space": space, "image": image.iter().map(|w| format!("x{w:04X}")).collect::<Vec<_>>(), "stack_feature": flag, "model_end": class}));
                    }
                }
                Ok(Some((sig, what))) => {
                    acc.outcome(format!("violation:{sig}"));
                    acc.violation(format!("C03/{sig}"), what, json!({"image": image, "image_hex": image.iter().map(|w| format!("x{w:04X}")).collect::<Vec<_>>(), "stack_feature": flag, "space": space, "fuel": FUEL}));
                }
            }
        });
        for p in parts {
            all.merge(p);
        }
    }

    // (f) the source path: `lace run file.asm` loads through RunEnvironment::try_from, not from_raw.
    //     Every one-word data program, and all programs of two and three words over six words, at
    //     four origins: the machine right after loading must be the reference machine's.
    {
        let alpha: [u16; 6] = [0x0000, 0x0001, 0xF025, 0xFFFF, 0x8000, 0x1021];
        let mut progs: Vec<Vec<u16>> = (0..=0xFFFFu16).map(|w| vec![0x3000, w]).collect();
        for o in [0x3000u16, 0x0000, 0xFDFE, 0xFFFC] {
            for a in alpha {
                for b in alpha {
                    progs.push(vec![o, a, b]);
                    for c in alpha {
                        progs.push(vec![o, a, b, c]);
                    }
                }
            }
        }
        let parts = pooled(Some(Env::new(false)), progs.len(), 512, Acc::new, |acc, i| {
            let image = &progs[i];
            acc.eval("f/source-path-load");
            let mut text = format!(".orig x{:04X}\n", image[0]);
            for w in &image[1..] {
                text.push_str(&format!(".fill x{w:04X}\n"));
            }
            let judge = || -> Option<(String, String)> {
                let want = Machine::load(image)?;
                match crate::session::load_source(&text, Env::new(false)) {
                    Err(stopped) => Some((format!("source-load/panic/{}", stopped.panic_site()), format!("loading the source stopped with {}", stopped.short()))),
                    Ok(Err(e)) => Some(("source-load/refused".into(), format!("loading the source failed: {e}"))),
                    Ok(Ok(m)) => machine_diff(&m, &want).map(|d| (format!("source-load/{}", crate::session::machine_diff_kind(&m, &want).unwrap_or("?")), format!("the machine right after loading the source differs from the model: {d}"))),
                }
            };
            let mut v = judge();
            if v.is_some() {
                v = confirm_fresh(judge);
            }
            match v {
                None => {
                    acc.nontrivial();
                    acc.gate("source-path-loaded");
                    acc.outcome(format!("f/source-path-load/{}-words", image.len() - 1));
                }
                Some((sig, what)) => {
                    acc.outcome(format!("violation:{sig}"));
                    acc.violation(format!("C03/{sig}"), what, json!({"source_load": true, "source": text, "image": image}));
                }
            }
        });
        for p in parts {
            all.merge(p);
        }
    }

    // (e) input: programs x all byte streams of length <= 2 over 7 bytes (incl. premature end of input),
    //     and exit statuses of the other ways to stop, on the real binary
    let lace = Lace::new(&ctx.lace_bin, &ctx.scratch);
    let bytes: [u8; 7] = [0x00, 0x0A, b'A', 0x7F, 0x80, 0xC3, 0xFF];
    let mut streams: Vec<Vec<u8>> = vec![vec![]];
    for a in bytes {
        streams.push(vec![a]);
        for b in bytes {
            streams.push(vec![a, b]);
        }
    }
    let programs: Vec<(&str, Vec<u16>)> = vec![
        ("getc-out", vec![0x3000, 0xF020, 0xF021, 0xF025]),
        ("in", vec![0x3000, 0xF023, 0xF025]),
        ("getc-getc-out-out", vec![0x3000, 0xF020, 0x1220, 0xF020, 0xF021, 0x1060, 0xF021, 0xF025]),
    ];
    let mut cli: Vec<(String, Vec<u16>, Vec<u8>, bool)> = Vec::new();
    for (name, img) in &programs {
        for s in &streams {
            if tier == Tier::Quick && s.len() == 2 && (s[0] == 0x7F || s[1] == 0x00) {
                continue;
            }
            cli.push((name.to_string(), img.clone(), s.clone(), false));
        }
    }
    for (name, img, stack) in templates() {
        cli.push((name.to_string(), img, vec![], stack));
    }
    for o in [0xFE00u16, 0xFE01, 0xFFFE] {
        cli.push(("origin-outside-user-space".into(), vec![o, 0x1021], vec![], false));
    }
    let parts = pooled(None, cli.len(), 2, Acc::new, |acc, i| {
        let (name, image, input, stack) = &cli[i];
        acc.eval("e/cli-runs");
        let file = format!("p{i}.lc3");
        lace.write(&file, &be_bytes(image));
        let mut args = vec!["run", file.as_str(), "--minimal"];
        if *stack {
            args.extend(["-f", "stack"]);
        }
        let run = lace.run(&args, input);
        let _ = std::fs::remove_file(lace.cwd.join(&file));
        let Some(mut m) = Machine::load(image) else { acc.skip("unloadable (C06)"); return; };
        let mut io = Io::new(input);
        let r = vm::run(&mut m, *stack, measured(), &mut io, 100_000);
        let want = match r.end {
            RunEnd::Normal => 0,
            RunEnd::OutOfBounds => 0xEE,
            RunEnd::Exit(c) => c,
            RunEnd::Fuel => 0xF0, // the harness's own step budget (LACE_VERIF_FUEL)
            RunEnd::Unspecified => { acc.skip("RTI"); return; }
        };
        let case = json!({"cli": true, "name": name, "image": image, "stdin": input, "stack_feature": stack, "expected_status": want});
        if r.end == RunEnd::Fuel {
            acc.skip("non-terminating template (covered in-process under fuel)");
            return;
        }
        if run.status != want {
            acc.violation(format!("C03/cli/{name}/exit-status"), format!("{name} with input {input:02x?}: exit status {}, model says {}", run.status, want), case);
            return;
        }
        let out = program_output(&run.out()).unwrap_or_default();
        // what the program printed, without HALT's banner
        let out = out.replace("\n      Halted\n", "").replace("\n      Halted", "");
        // (the ESC character itself is not judged under `--minimal`: it is removed on both sides)
        let judged_output = !io.out_unjudged && !name.starts_with("in");
        if judged_output && out.replace('\x1b', "").trim_end_matches('\n') != io.out.replace('\x1b', "").trim_end_matches('\n') {
            acc.violation(format!("C03/cli/{name}/output"), format!("{name} with input {input:02x?}: printed {out:?}, model prints {:?}", io.out), case);
            return;
        }
        acc.nontrivial();
        acc.gate(if want == 0 { "cli-exit-0" } else if want == 1 { "cli-exit-1" } else { "cli-exit-ee" });
        acc.outcome(format!("cli/{name}/status{want}"));
    });
    for p in parts {
        all.merge(p);
    }
    // (g) GETC and IN read "a character" through the same routine: for every input byte 0..255
    //     the register dump after GETC and after IN must show the same R0 (and, for ASCII, the byte)
    {
        let parts = pooled(None, 256, 8, Acc::new, |acc, b| {
            acc.eval("g/getc-in-agree");
            let mut r0 = Vec::new();
            for (name, trap) in [("getc", 0xF020u16), ("in", 0xF023)] {
                let file = format!("g{b}-{name}.lc3");
                lace.write(&file, &be_bytes(&[0x3000, trap, 0xF027, 0xF025]));
                let run = lace.run(&["run", &file, "--minimal"], &[b as u8]);
                let _ = std::fs::remove_file(lace.cwd.join(&file));
                // (IN echoes the character in front of the dump's first line)
                let out = run.out();
                let line = out.find("R0 x").map(|p| out[p..].lines().next().unwrap_or("").trim().to_string());
                r0.push((run.status, line));
            }
            let case = json!({"getc_in": true, "byte": b});
            if r0[0] != r0[1] {
                acc.violation(format!("C03/cli/getc-in-disagree/{}", if b < 0x80 { "ascii" } else { "non-ascii" }), format!("input byte x{b:02x}: after GETC the dump shows {:?} (exit {}), after IN {:?} (exit {})", r0[0].1, r0[0].0, r0[1].1, r0[1].0), case);
            } else if b < 0x80 && r0[0].1.as_deref().map(|l| l.eq_ignore_ascii_case(&format!("R0 x{b:04x}"))) != Some(true) {
                acc.violation("C03/cli/getc-in-wrong-value/ascii", format!("input byte x{b:02x}: the dump shows {:?}", r0[0].1), case);
            } else {
                acc.nontrivial();
                acc.gate("getc-and-in-agree");
            }
        });
        for p in parts {
            all.merge(p);
        }
    }

    finish(
        ctx,
        all,
        Level { category: "model_checking", bfs: None },
        "bounded-exhaustive enumeration of images, each run on the real VM under a step budget and on the reference machine for exactly as many instructions: (a) all 65,536 one-word images under both feature flags, (b) all two-word images over an opcode-covering alphabet (128 quick / 2048 thorough words), all three-word images over 24 / 128 words and all four-word images over 8 / 40 words, (c) one image touching its neighbourhood at every origin (stride 16 quick), (d) parameterised structured templates (counted loops, nested JSR/RET, recursive CALL/RETS, self-modifying store, running off the end, computed jumps to xFFFF / below origin / >= xFE00, address wrap, every output trap, spinning under fuel, top of user space, stack gate), (e) three input programs x every byte stream of length <= 2 over 7 bytes incl. non-ASCII and premature end of input, plus all templates, through the real binary (exit status and stdout), (f) the source path (RunEnvironment::try_from): every one-word data program and all two- and three-word programs over six words at four origins, machine right after loading vs the model, (g) GETC and IN followed by REG for every input byte 0..255 through the real binary: the same R0 after both, and the byte itself for ASCII. Oracle: state right after load; how and after how many instructions the run stops; final registers/PC/CC/all memory; program output. non-trivial = runs that agreed",
        true,
        &["normal-end", "exception-end", "cut-by-fuel", "exit-1", "printed-something", "cli-exit-0", "cli-exit-1", "cli-exit-ee", "source-path-loaded", "getc-and-in-agree"],
        &["reference machine follows the measured edition facets (LEA CC, JSRR order)", "IN's prompt/echo and R0 for non-ASCII input bytes are not judged"],
        json!({"fuel": FUEL, "variant": format!("{:?}", measured())}),
    )
}

pub fn replay(ctx: &Ctx, case: &Value) -> Option<Option<String>> {
    let image: Vec<u16> = case["image"].as_array()?.iter().map(|v| v.as_u64().unwrap() as u16).collect();
    let stack = case["stack_feature"].as_bool().unwrap_or(false);
    if case["source_load"].as_bool() == Some(true) {
        let text = case["source"].as_str()?.to_string();
        let want = Machine::load(&image)?;
        return Some(confirm_fresh(|| match crate::session::load_source(&text, Env::new(false)) {
            Err(stopped) => Some(format!("loading the source stopped with {}", stopped.short())),
            Ok(Err(e)) => Some(format!("loading the source failed: {e}")),
            Ok(Ok(m)) => machine_diff(&m, &want),
        }));
    }
    if case["cli"].as_bool() == Some(true) {
        let input: Vec<u8> = case["stdin"].as_array()?.iter().map(|v| v.as_u64().unwrap() as u8).collect();
        let lace = Lace::new(&ctx.lace_bin, &ctx.scratch);
        lace.write("replay.lc3", &be_bytes(&image));
        let mut args = vec!["run", "replay.lc3", "--minimal"];
        if stack {
            args.extend(["-f", "stack"]);
        }
        let run = lace.run(&args, &input);
        let want = case["expected_status"].as_i64()? as i32;
        return Some(if run.status != want { Some(format!("exit status {} expected {}", run.status, want)) } else { None });
    }
    let fuel = case["fuel"].as_u64().unwrap_or(FUEL);
    let a = confirm_fresh(|| judge_image(&image, stack, fuel));
    let b = confirm_fresh(|| judge_image(&image, stack, fuel));
    if format!("{a:?}") != format!("{b:?}") {
        return Some(Some("NONDETERMINISTIC".into()));
    }
    Some(match a {
        Ok(Some((s, w))) => Some(format!("{s}: {w}")),
        _ => None,
    })
}
