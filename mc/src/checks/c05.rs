//! C05 — the assembler is total: any text yields an image or a diagnostic.

use crate::gen::programs::seeds;
use crate::isolate::{confirm_fresh, pooled, Env, Stopped};
use crate::refmodel::asm::{print_plain};
use crate::report::{finish, Acc, Ctx, Level};
use crate::session::{assemble, Asm};
use crate::util;
use serde_json::{json, Value};
use std::sync::atomic::Ordering;

pub const TOKENS: [&str; 32] = [
    "ret", "jmp", "not", "add", "br", "ld", "halt", "trap", "push", "call", "r1", "#5", "#-3", "x1F", "lbl", "xg",
    "\"s\"", "\"open", ".orig", ".fill", ".blkw", ".stringz", ".break", ".end", "; c", ",", "é", "𝄞", "#", "0x", ".", "x-",
];

pub const CHARS: [char; 36] = [
    'a', 'd', 'r', 'x', 'X', '0', '1', '8', '#', '-', '.', '"', '\'', ';', ',', ':', ' ', '\n', '\t', '\\', 'é', '𝄞', '_', '+', '^', '@', '/',
    '(', '\0', '\r', 'l', 'i', 'f', 'z', 'b', 'k',
];

/// `None` if the assembler behaved (image, or diagnostic that renders and points inside the source).
pub fn judge(text: &str, stack: bool) -> Option<(String, String)> {
    match assemble(text, Env::new(stack)) {
        Err(stopped) => Some((format!("total/panic/{}", stopped.panic_site()), format!("assembling stopped with {}", stopped.short()))),
        Ok(Asm::Ok(_)) => None,
        Ok(Asm::Err(e)) => {
            for (off, len) in &e.labels {
                if off + len > text.len() {
                    return Some((format!("total/span-outside-source/{}", e.code), format!("diagnostic `{}` labels bytes {}..{} of a {}-byte source", e.message, off, off + len, text.len())));
                }
            }
            if e.rendered.is_empty() {
                return Some(("total/empty-rendering".into(), "diagnostic rendered to nothing".into()));
            }
            None
        }
    }
}

fn outcome_key(text: &str, stack: bool) -> String {
    match assemble(text, Env::new(stack)) {
        Ok(Asm::Ok(ok)) => format!("image/{}", ok.words.len().min(3)),
        Ok(Asm::Err(e)) => format!("diag/{}/{}", e.stage, if e.code.is_empty() { "uncoded" } else { &e.code }),
        Err(_) => "stopped".into(),
    }
}

struct Space {
    name: &'static str,
    len: usize,
    make: Box<dyn Fn(usize) -> (String, bool) + Sync + Send>,
}

pub fn run(ctx: &Ctx) -> i32 {
    let tok_len = ctx.tier.pick(3, 5);
    let chr_len = ctx.tier.pick(3, 5);
    let mut spaces: Vec<Space> = Vec::new();
    // T1: token sequences joined by ' ' and by '\n', under both flag values for the short ones
    for len in 1..=tok_len {
        for (jn, joiner) in [(0usize, " "), (1, "\n")] {
            for stack in [false, true] {
                if (stack && len == tok_len && len > 2) || (len == 5 && (jn == 1 || stack)) {
                    continue;
                }
                let k = TOKENS.len();
                spaces.push(Space {
                    name: "T1/token-sequences",
                    len: util::pow(k, len),
                    make: Box::new(move |i| {
                        let seq = util::seq(i, k, len);
                        let _ = jn;
                        (seq.iter().map(|t| TOKENS[*t]).collect::<Vec<_>>().join(joiner), stack)
                    }),
                });
            }
        }
    }
    // T2: all strings over the character alphabet
    for len in 0..=chr_len {
        let k = CHARS.len();
        spaces.push(Space {
            name: "T2/char-strings",
            len: util::pow(k, len),
            make: Box::new(move |i| (util::seq(i, k, len).iter().map(|c| CHARS[*c]).collect::<String>(), false)),
        });
    }
    // T3: token-level mutations of seed programs and a multi-byte character at every boundary
    let mut mutated: Vec<(String, bool)> = Vec::new();
    for (prog, stack) in seeds() {
        let text = print_plain(&prog);
        let toks: Vec<&str> = text.split_inclusive(|c: char| c == ' ' || c == '\n').collect();
        for pos in 0..toks.len() {
            let variants: Vec<Vec<String>> = {
                let base: Vec<String> = toks.iter().map(|s| s.to_string()).collect();
                let mut v = Vec::new();
                let mut del = base.clone();
                del.remove(pos);
                v.push(del);
                let mut dup = base.clone();
                dup.insert(pos, base[pos].clone());
                v.push(dup);
                if pos + 1 < base.len() {
                    let mut sw = base.clone();
                    sw.swap(pos, pos + 1);
                    v.push(sw);
                }
                for t in TOKENS {
                    let mut rep = base.clone();
                    let tail: String = base[pos].chars().rev().take_while(|c| *c == ' ' || *c == '\n').collect();
                    rep[pos] = format!("{t}{tail}");
                    v.push(rep);
                }
                v
            };
            for v in variants {
                mutated.push((v.concat(), stack));
            }
        }
        let boundaries: Vec<usize> = text.char_indices().map(|(i, _)| i).chain([text.len()]).collect();
        for b in boundaries {
            // é: 2 bytes; 𝄞: 4 bytes; € 3 bytes; K (U+212A) and İ (U+0130): characters whose lower-case form has
            // another byte length (3 -> 1, 2 -> 3), so a lower-cased copy of the source shifts
            for ins in ["é", "𝄞", "€", "\u{212A}", "\u{0130}"] {
                let mut t = text.clone();
                t.insert_str(b, ins);
                mutated.push((t, stack));
            }
        }
    }
    let mutated = std::sync::Arc::new(mutated);
    {
        let m = mutated.clone();
        spaces.push(Space { name: "T3/mutations", len: mutated.len(), make: Box::new(move |i| m[i].clone()) });
    }
    // T4: size extremes
    let mut big: Vec<(String, bool)> = Vec::new();
    big.push((".blkw xFFFF\n".into(), false));
    big.push((".blkw xFFFF\n.blkw xFFFF\n".into(), false));
    big.push(("br far\n.blkw xFFFF\nfar halt\n".into(), false));
    big.push(("a halt\n.blkw xFFFF\n.blkw xFFFF\nbr a\n".into(), false));
    big.push(("lea r0 far\n.blkw x7FFE\nfar halt\n".into(), false));
    big.push(("lea r0 far\n.blkw x7FFF\nfar halt\n".into(), false));
    big.push(("lea r0 far\n.blkw x8000\nfar halt\n".into(), false));
    big.push(("far halt\n.blkw x7FFE\nlea r0 far\n".into(), false));
    big.push(("far halt\n.blkw x7FFF\nlea r0 far\n".into(), false));
    big.push(("far halt\n.blkw x8000\nlea r0 far\n".into(), false));
    big.push(("add r0 r0 r0\n".repeat(70_000), false));
    big.push((format!("{}end halt\nbr end\n", "add r0 r0 r0\n".repeat(65_534)), false));
    big.push((format!("{}end halt\nbr end\n", "add r0 r0 r0\n".repeat(65_535)), false));
    big.push((format!("{}end halt\nbr end\n", "add r0 r0 r0\n".repeat(65_536)), false));
    big.push((format!(".stringz \"{}\"\n", "a".repeat(70_000)), false));
    big.push((format!(".stringz \"{}\"\nhalt\n", "é".repeat(40_000)), false));
    big.push((format!("l{} halt\n", "x".repeat(100_000)), false));
    big.push((format!("{}\n", "; é\n".repeat(50_000)), false));
    big.push((".blkw #-1\nhalt\n".into(), false));
    // data directives with particular words where an operand belongs (the diagnostic names the
    // token it found: every class of word must be printable there)
    for data in [".fill xD800", ".fill xDFFF", ".fill #-8193", ".fill xFFFF", ".fill x0000", ".fill x0041", ".fill x000A", ".fill x001B", ".fill xFFFE", ".blkw 1", ".blkw x2", ".stringz \"\u{1D800}\"", ".stringz \"\u{FFFF}\"", ".stringz \"\\n\"", ".stringz \"\"", ".break"] {
        for tmpl in ["add r0 r0 {}", "add r0 {} r1", "ld r1 {}", "lea r0 {}", "jmp {}", "trap {}", ".orig {}", "br {}", "ldr r0 r1 {}", "{} add r0 r0 r0", "not r0 {}", "jsr {}"] {
            big.push((format!("{}\nhalt\n", tmpl.replace("{}", data)), false));
        }
    }
    // every statement shape right at the end of the 16-bit address space: n words of padding,
    // then one more statement (the line counter is about to wrap)
    for pad in ["xFFFC", "xFFFD", "xFFFE", "xFFFF"] {
        for tail in ["br #0", "brz #-1", "ld r0 #1", "ldi r1 #-2", "lea r2 #-2", "st r3 #0", "sti r4 #5", "jsr #0", "jsr #-1024", "add r0 r0 #1", "ldr r0 r1 #-1", ".fill x1", ".blkw 2", ".stringz \"ab\"", "halt", "trap x25", "lbl halt", "br lbl\nlbl halt", "lbl halt\nbr lbl", ".break\nhalt", ".orig x0", "halt\nhalt\nhalt"] {
            big.push((format!(".blkw {pad}\n{tail}\n"), false));
            big.push((format!("start halt\n.blkw {pad}\n{tail}\nbr start\n"), false));
        }
        big.push((format!(".blkw {pad}\ncall f\nf rets\n"), true));
        big.push((format!(".blkw {pad}\npush r0\n"), true));
    }
    let big = std::sync::Arc::new(big);
    {
        let b = big.clone();
        spaces.push(Space { name: "T4/size-extremes", len: big.len(), make: Box::new(move |i| b[i].clone()) });
    }

    // T6: character sweep - every character of the Basic Multilingual Plane (thorough: every
    // Unicode scalar value), control characters included, in each of 14 places of a source text
    {
        const PLACES: [&str; 14] = [
            "{}",
            "lab{}el add r0, r0, #1\nbr lab{}el\n",
            "add{} r0, r0, #1\n",
            "add r0, r{}0, #1\n",
            "add r0, r0, #1{}\n",
            ".fill x{}41\n",
            ".fill #{}\n",
            ".stringz \"a{}b\"\nhalt\n",
            ".stringz \"\\{}\"\n",
            "halt ; comment {}\nhalt\n",
            ".{}orig x3000\nhalt\n",
            "halt {} halt\n",
            "ld r0, {}\n{} .fill x1\n",
            "{}{}{}",
        ];
        let top: usize = ctx.tier.pick(0x1_0000, 0x11_0000);
        spaces.push(Space {
            name: "T6/character-sweep",
            len: top * PLACES.len(),
            make: Box::new(move |i| {
                let (cp, pl) = (i / PLACES.len(), i % PLACES.len());
                // surrogates are not characters: their slots repeat U+FFFD
                let c = char::from_u32(cp as u32).unwrap_or('\u{FFFD}');
                (PLACES[pl].replace("{}", &c.to_string()), false)
            }),
        });
    }

    // Flatten: (space index, offset)
    let mut offsets = Vec::new();
    let mut total = 0usize;
    for s in &spaces {
        offsets.push(total);
        total += s.len;
    }
    let locate = |idx: usize| -> (usize, usize) {
        let si = match offsets.binary_search(&idx) {
            Ok(mut p) => {
                while spaces[p].len == 0 { p += 1; }
                p
            }
            Err(p) => p - 1,
        };
        (si, idx - offsets[si])
    };

    // Watchdog: SIGALRM kills a worker whose case runs for 60 s; the parent learns the index.
    crate::isolate::CASE_ALARM_S.store(60, Ordering::Relaxed);
    let mut all = Acc::new();
    for flag in [false, true] {
        let parts = pooled(Some(Env::new(flag)), total, 256, Acc::new, |acc, idx| {
            let (si, off) = locate(idx);
            let (text, stack) = (spaces[si].make)(off);
            if stack != flag {
                return;
            }
            acc.eval(spaces[si].name);
            let mut v = judge(&text, stack);
            if v.is_some() {
                v = confirm_fresh(|| judge(&text, stack));
            }
            match v {
                Some((sig, what)) => {
                    acc.outcome(format!("violation:{sig}"));
                    let shown: String = if text.len() > 400 { format!("{}…[{} bytes]", text.chars().take(200).collect::<String>(), text.len()) } else { text.clone() };
                    acc.violation(format!("C05/{sig}"), what, json!({"source": if text.len() > 4000 { Value::Null } else { json!(text) }, "source_shown": shown, "space": spaces[si].name, "index": off, "stack_feature": stack}));
                }
                None => {
                    let key = outcome_key(&text, stack);
                    if key.starts_with("image") { acc.gate("some-image"); } else { acc.gate("some-diagnostic"); acc.nontrivial(); }
                    acc.outcome(key);
                    if idx % 50021 == 0 {
                        acc.sample(format!("{idx}"), json!({"space": spaces[si].name, "source": text.chars().take(120).collect::<String>()}));
                    }
                }
            }
        });
        for p in parts {
            all.merge(p);
        }
        // a worker that died on a case (hang -> SIGALRM, abort, stack overflow): that case violates totality
        for death in crate::isolate::take_deaths() {
            let (si, off) = locate(death.index);
            let (text, stack) = (spaces[si].make)(off);
            let shown: String = text.chars().take(200).collect();
            all.violation(format!("C05/total/process-died/{}", death.status.replace(' ', "-")), format!("assembling killed the process ({}): hang or abort", death.status), json!({"source": if text.len() > 4000 { Value::Null } else { json!(text) }, "source_shown": shown, "space": spaces[si].name, "index": off, "stack_feature": stack}));
            let _ = crate::isolate::take_machinery_errors();
        }
    }
    crate::isolate::CASE_ALARM_S.store(0, Ordering::Relaxed);

    // T5: repeated huge expansions through the real binary with the address space limited to
    // 2 GiB: the answer must still be an image or a diagnostic, never an allocation abort.
    let lace = crate::cli::Lace::new(&ctx.lace_bin, &ctx.scratch);
    let wrapper = ["sh", "-c", "ulimit -v 2097152; exec \"$0\" \"$@\""];
    for (k, line) in [(1usize, ".blkw xFFFF\n"), (2, ".blkw xFFFF\n"), (300, ".blkw xFFFF\n"), (3000, ".blkw xFFFF\n"), (3000, ".blkw #-1\n"), (3000, "a .blkw xFFFF\n"), (20000, ".stringz \"abcdefgh\"\n")] {
        all.eval("T5/repeated-expansions-limited-memory");
        let text = line.repeat(k);
        lace.write("big.asm", text.as_bytes());
        let r = lace.run_timeout(&["check", "big.asm"], b"", &[], Some(&wrapper), 120);
        let case = json!({"limited_memory": true, "line": line, "repeat": k, "source_shown": format!("{:?} x {k}", line)});
        if r.class() == "crash" || r.class() == "timeout" {
            all.violation(format!("C05/total/limited-memory/{}", if r.err().contains("memory allocation") { "allocation-abort" } else { r.class() }), format!("`lace check` on {:?} repeated {k} times ({} bytes of source) under a 2 GiB address-space limit ended with status {} ({})", line, text.len(), r.status, r.err().lines().last().unwrap_or("")), case);
        } else {
            all.nontrivial();
            all.outcome(format!("T5/{}", r.class()));
        }
    }

    finish(
        ctx,
        all,
        Level { category: "model_checking", bfs: None },
        "bounded-exhaustive enumeration of texts: T1 every token sequence up to the tier's length over a 32-token alphabet (one token of every lexical kind incl. each directive, malformed literals, multi-byte characters) joined by space and by newline, under both feature flags; T2 every string up to the tier's length over 36 characters the lexer distinguishes; T3 every single-token deletion/duplication/swap/replacement (by each alphabet token) of 10 seed programs and a 2-, 3- and 4-byte character and two characters whose lower-case form changes byte length (U+212A, U+0130) inserted at every character boundary; T4 size extremes; T6 every character of the Basic Multilingual Plane (thorough: every Unicode scalar value), control characters included, in each of 14 places of a source (alone, inside a label and its reference, glued to a mnemonic, inside a register, behind a literal, inside hex and decimal literals, inside a string, as an escape, in a comment, inside a directive name, between statements, as a whole label, three in a row); T5 `.blkw xFFFF` / `.blkw #-1` / `.stringz` lines repeated up to 3000 / 20000 times through `lace check` under a 2 GiB address-space limit (no allocation abort). Oracle: assembling returns (60 s watchdog) without panic, and a diagnostic renders and every labelled span lies inside the source (offset+len <= length). distinct_nontrivial = distinct texts that ended in a diagnostic",
        true,
        &["some-image", "some-diagnostic"],
        &["profile: optimised with debug assertions and overflow checks, so arithmetic overflow panics as in `cargo test`"],
        json!({"token_len": tok_len, "char_len": chr_len}),
    )
}

pub fn replay(ctx: &Ctx, case: &Value) -> Option<Option<String>> {
    if case["limited_memory"].as_bool() == Some(true) {
        let lace = crate::cli::Lace::new(&ctx.lace_bin, &ctx.scratch);
        let text = case["line"].as_str()?.repeat(case["repeat"].as_u64()? as usize);
        lace.write("big.asm", text.as_bytes());
        let wrapper = ["sh", "-c", "ulimit -v 2097152; exec \"$0\" \"$@\""];
        let r = lace.run_timeout(&["check", "big.asm"], b"", &[], Some(&wrapper), 120);
        return Some(if r.class() == "crash" || r.class() == "timeout" { Some(format!("status {} ({})", r.status, r.err().lines().last().unwrap_or(""))) } else { None });
    }
    let stack = case["stack_feature"].as_bool().unwrap_or(false);
    let src = case["source"].as_str()?;
    let a = confirm_fresh(|| judge(src, stack));
    let b = confirm_fresh(|| judge(src, stack));
    if a != b {
        return Some(Some("NONDETERMINISTIC".into()));
    }
    Some(a.map(|(s, w)| format!("{s}: {w}")))
}

#[allow(dead_code)]
fn _unused(_: Stopped) {}
