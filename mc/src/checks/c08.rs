//! C08 — compile is all-or-nothing.

use crate::cli::{be_bytes, Lace};
use crate::gen::programs::{far_label, RefKind};
use crate::isolate::pooled;
use crate::refmodel::asm::*;
use crate::report::{finish, Acc, Ctx, Level};
use serde_json::{json, Value};

const OLD: &[u8] = b"previous contents of the destination\n";

struct Case {
    name: String,
    text: String,
    /// reference image if the source is valid
    image: Option<Vec<u16>>,
    /// "absent" | "existing" | "devfull" | "missing-dir" | "readonly-dir" | "is-a-directory" | "inject:<k>"
    dest: String,
}

fn have_strace_early() -> bool {
    std::process::Command::new("strace").arg("-V").output().map(|o| o.status.success()).unwrap_or(false)
}

pub fn run(ctx: &Ctx) -> i32 {
    let lace = Lace::new(&ctx.lace_bin, &ctx.scratch);
    let mut cases: Vec<Case> = Vec::new();
    let nmax = ctx.tier.pick(5, 6);
    // (i) assembly fails at statement position k of n
    for n in 1..=nmax {
        for k in 0..n {
            let core = far_label(RefKind::Br, 256).unwrap();
            let mut p = Program::default();
            for _ in 0..k {
                p.push(None, Stmt::Add(1, 1, Src2::Reg(1)));
            }
            p.items.extend(core.items);
            for _ in (k + 1)..n {
                p.push(None, Stmt::Not(2, 2));
            }
            for dest in ["absent", "existing", "default-absent", "default-existing"] {
                cases.push(Case { name: format!("fail-at-{k}-of-{n}"), text: print_plain(&p), image: None, dest: dest.into() });
            }
        }
        // and lexer / parser failures after k good statements
        for (bi, bad) in [".bogus", "add r0 r0", "br nowhere"].iter().enumerate() {
            let mut text = "add r1 r1 r1\n".repeat(n - 1);
            text.push_str(bad);
            text.push('\n');
            for dest in ["absent", "existing"] {
                cases.push(Case { name: format!("early-error{bi}-after-{}", n - 1), text: text.clone(), image: None, dest: dest.into() });
            }
        }
    }
    // (ii) valid programs x destinations that cannot be (completely) written
    let mut valid = Program::default();
    valid.items.push(Item::Orig(Lit::hex(0x3100)));
    valid.push(None, Stmt::Add(0, 0, Src2::Imm(Lit::dec(1))));
    valid.push(None, Stmt::Named(0x26, "putn"));
    valid.push(None, Stmt::Named(0x25, "halt"));
    valid.push(None, Stmt::Stringz("data".into()));
    let valid_text = print_plain(&valid);
    let valid_image = encode(&valid, false).unwrap().raw();
    for dest in ["absent", "existing", "existing-same-length", "existing-new-image-plus-tail", "existing-new-image-cut-short", "existing-identical", "default-absent", "default-existing", "default-same-length", "devfull", "missing-dir", "readonly-dir", "is-a-directory"] {
        cases.push(Case { name: "valid".into(), text: valid_text.clone(), image: Some(valid_image.clone()), dest: dest.into() });
    }
    cases.push(Case { name: "valid-empty".into(), text: "".into(), image: Some(vec![0x3000]), dest: "existing".into() });
    // images with long runs of zero words (at the end, in the middle, nothing else) and a large
    // image: "complete file" also means complete in length when most of it is zero
    let mut shaped: Vec<(&str, Program)> = Vec::new();
    let mut p = Program::default();
    p.push(None, Stmt::Add(0, 0, Src2::Imm(Lit::dec(1))));
    p.push(None, Stmt::Named(0x25, "halt"));
    p.push(None, Stmt::Blkw(Lit::dec(4096)));
    shaped.push(("valid-zero-tail", p));
    let mut p = Program::default();
    p.push(None, Stmt::Named(0x25, "halt"));
    p.push(None, Stmt::Blkw(Lit::dec(9000)));
    p.push(None, Stmt::Fill(Lit::hex(0x1234)));
    shaped.push(("valid-zero-middle", p));
    let mut p = Program::default();
    p.items.push(Item::Orig(Lit::hex(0x0000)));
    p.push(None, Stmt::Blkw(Lit::dec(8)));
    shaped.push(("valid-all-zero", p));
    let mut p = Program::default();
    p.items.push(Item::Orig(Lit::hex(0x0000)));
    p.push(None, Stmt::Blkw(Lit::dec(20000)));
    shaped.push(("valid-all-zero-large", p));
    let mut p = Program::default();
    for i in 0..20000u32 {
        p.push(None, Stmt::Fill(Lit::hex(0x4100 | (i % 251) as u16)));
    }
    shaped.push(("valid-large", p));
    for (name, p) in &shaped {
        let text = print_plain(p);
        let image = encode(p, false).unwrap().raw();
        let mut dests = vec!["absent", "existing", "existing-same-length", "existing-new-image-plus-tail", "devfull"];
        if have_strace_early() {
            dests.extend(["inject:1", "inject:2", "inject-absent:1"]);
        }
        for dest in dests {
            cases.push(Case { name: name.to_string(), text: text.clone(), image: Some(image.clone()), dest: dest.into() });
        }
    }
    // (iii) every write(2) of the compile history failed with ENOSPC (strace fault injection)
    let have_strace = std::process::Command::new("strace").arg("-V").output().map(|o| o.status.success()).unwrap_or(false);
    if have_strace {
        for k in 1..=ctx.tier.pick(10, 14) {
            cases.push(Case { name: "valid".into(), text: valid_text.clone(), image: Some(valid_image.clone()), dest: format!("inject:{k}") });
        }
        cases.push(Case { name: "valid".into(), text: valid_text.clone(), image: Some(valid_image.clone()), dest: "inject:1+".into() });
        cases.push(Case { name: "valid".into(), text: valid_text.clone(), image: Some(valid_image.clone()), dest: "inject:2+".into() });
        cases.push(Case { name: "valid".into(), text: valid_text.clone(), image: Some(valid_image.clone()), dest: "inject-absent:1".into() });
        cases.push(Case { name: "valid".into(), text: valid_text.clone(), image: Some(valid_image.clone()), dest: "inject-absent:2".into() });
    }
    let parts = pooled(None, cases.len(), 1, Acc::new, |acc, i| {
        let c = &cases[i];
        acc.eval(if c.dest.starts_with("inject") { "write-fault-injection" } else if c.image.is_some() { "unwritable-destination" } else { "assembly-failure-position" });
        let dir = lace.cwd.join(format!("c{i}"));
        let _ = std::fs::create_dir_all(&dir);
        let sub = Lace::new(&lace.bin, &dir);
        sub.write("in.asm", c.text.as_bytes());
        let (dest_arg, dest_path): (String, Option<std::path::PathBuf>) = match c.dest.as_str() {
            "absent" => ("out.lc3".into(), Some(dir.join("out.lc3"))),
            "existing" => {
                sub.write("out.lc3", OLD);
                ("out.lc3".into(), Some(dir.join("out.lc3")))
            }
            // no destination argument: the default is <source stem>.lc3 in the working directory
            "default-absent" => (String::new(), Some(dir.join("in.lc3"))),
            "default-existing" => {
                sub.write("in.lc3", OLD);
                (String::new(), Some(dir.join("in.lc3")))
            }
            // an older object file of exactly the new length (written after the source, so it is newer)
            "existing-same-length" => {
                sub.write("out.lc3", &vec![0x41; c.image.as_ref().map(|i| i.len() * 2).unwrap_or(8)]);
                ("out.lc3".into(), Some(dir.join("out.lc3")))
            }
            // an older object file that begins with exactly the bytes to be written (a longer
            // earlier version of the same program), is a prefix of them, or equals them
            "existing-new-image-plus-tail" | "existing-new-image-cut-short" | "existing-identical" => {
                let mut b = be_bytes(c.image.as_ref().unwrap());
                match c.dest.as_str() {
                    "existing-new-image-plus-tail" => b.extend([0x00, 0x21, 0x00, 0x21]),
                    "existing-new-image-cut-short" => b.truncate(b.len() - 2),
                    _ => {}
                }
                sub.write("out.lc3", &b);
                ("out.lc3".into(), Some(dir.join("out.lc3")))
            }
            "default-same-length" => {
                sub.write("in.lc3", &vec![0x41; c.image.as_ref().map(|i| i.len() * 2).unwrap_or(8)]);
                (String::new(), Some(dir.join("in.lc3")))
            }
            "devfull" => ("/dev/full".into(), None),
            "missing-dir" => ("nodir/out.lc3".into(), Some(dir.join("nodir/out.lc3"))),
            "readonly-dir" => {
                let _ = std::fs::create_dir_all(dir.join("ro"));
                use std::os::unix::fs::PermissionsExt;
                let _ = std::fs::set_permissions(dir.join("ro"), std::fs::Permissions::from_mode(0o555));
                ("ro/out.lc3".into(), Some(dir.join("ro/out.lc3")))
            }
            "is-a-directory" => {
                let _ = std::fs::create_dir_all(dir.join("adir"));
                ("adir".into(), None)
            }
            d if d.starts_with("inject-absent") => ("out.lc3".into(), Some(dir.join("out.lc3"))),
            _ => {
                sub.write("out.lc3", OLD);
                ("out.lc3".into(), Some(dir.join("out.lc3")))
            }
        };
        let before: Option<Vec<u8>> = dest_path.as_ref().and_then(|p| std::fs::read(p).ok());
        let r = if let Some(k) = c.dest.strip_prefix("inject:").or(c.dest.strip_prefix("inject-absent:")) {
            // fail the K-th (or from the K-th on) write to the destination path
            let spec = format!("inject=write:error=ENOSPC:when={k}");
            let p = dir.join("out.lc3");
            sub.run_with(&["compile", "in.asm", &dest_arg], b"", &[], Some(&["strace", "-f", "-qq", "-o", "/dev/null", "-P", p.to_str().unwrap(), "-e", "trace=write", "-e", &spec]))
        } else if dest_arg.is_empty() {
            sub.run(&["compile", "in.asm"], b"")
        } else {
            sub.run(&["compile", "in.asm", &dest_arg], b"")
        };
        let after: Option<Vec<u8>> = dest_path.as_ref().and_then(|p| std::fs::read(p).ok());
        // (root ignores directory permissions: a "read-only" directory may be writable in this sandbox)
        let case = json!({"name": c.name, "source": if c.text.len() < 2000 { json!(c.text) } else { Value::Null }, "destination": c.dest, "status": r.status, "dest_before": before.as_ref().map(|b| b.len()), "dest_after": after.as_ref().map(|b| b.len())});
        if r.class() == "timeout" {
            acc.violation("C08/timeout", "compile did not finish", case);
        } else if r.status == 0 {
            // must have written the complete object file
            let Some(img) = &c.image else {
                acc.violation(format!("C08/exit-0-for-invalid-source/{}", c.name.split('-').next().unwrap_or("")), format!("`lace compile` exits 0 for a source that does not assemble ({})", c.name), case);
                let _ = std::fs::remove_dir_all(&dir);
                return;
            };
            let want = be_bytes(img);
            match c.dest.as_str() {
                "devfull" | "is-a-directory" => {
                    acc.violation(format!("C08/exit-0-without-complete-file/{}", c.dest), format!("`lace compile` to {} exits 0 although nothing can have been written", c.dest), case);
                }
                _ => {
                    if after.as_deref() != Some(&want[..]) {
                        let kind = if c.dest.starts_with("inject") { "after-failed-write" } else { "plain" };
                        acc.violation(format!("C08/exit-0-without-complete-file/{kind}"), format!("`lace compile` exits 0 but the destination holds {:?} bytes instead of the complete {}-byte object file (destination: {})", after.as_ref().map(|a| a.len()), want.len(), c.dest), case);
                    } else {
                        acc.nontrivial();
                        acc.gate("success-with-complete-file");
                        acc.outcome(format!("ok/{}", if c.dest.starts_with("inject") { "inject" } else { &c.dest }));
                    }
                }
            }
        } else {
            // non-zero: destination as it was
            if c.dest.starts_with("inject") {
                acc.gate("write-fault-reported");
            }
            if after != before {
                let what = match (&before, &after) {
                    (None, Some(a)) => format!("created-{}", if a.is_empty() { "empty" } else { "partial" }),
                    (Some(_), Some(a)) => format!("overwritten-{}", if a.is_empty() { "empty" } else { "partial" }),
                    (Some(_), None) => "removed".to_string(),
                    _ => "changed".to_string(),
                };
                let why = if c.dest.starts_with("inject") { "write-failure-after-open" } else if c.image.is_some() { "write-failure" } else { "assembly-failure" };
                acc.violation(format!("C08/nonzero-exit-but-destination-{what}/{why}"), format!("`lace compile` exits {} ({}) but the destination changed: before {:?} bytes, after {:?} bytes", r.status, c.name, before.as_ref().map(|b| b.len()), after.as_ref().map(|b| b.len())), case);
            } else {
                acc.nontrivial();
                acc.gate("failure-leaves-destination");
                acc.outcome(format!("fail/{}/{}", if c.image.is_some() { "write" } else { "assembly" }, c.dest));
            }
        }
        if i % 9 == 0 {
            acc.sample(format!("{i}"), json!({"name": c.name, "destination": c.dest, "status": r.status, "dest_before": before.as_ref().map(|b| b.len()), "dest_after": after.as_ref().map(|b| b.len())}));
        }
        {
            use std::os::unix::fs::PermissionsExt;
            let _ = std::fs::set_permissions(dir.join("ro"), std::fs::Permissions::from_mode(0o755));
        }
        let _ = std::fs::remove_dir_all(&dir);
    });
    let acc = Acc::merge_all(parts);
    finish(
        ctx,
        acc,
        Level { category: "fault_enumeration", bfs: None },
        "fault enumeration against the real binary: (i) programs of n = 1..4 (thorough 6) statements whose only error is an out-of-range label reference at EVERY emission position k, and lexer / parser / backpatch errors after n-1 good statements, each with the destination absent and pre-existing with known bytes, given explicitly and defaulted (<stem>.lc3); (ii) a valid program (and five more shaped ones: zero words at the end, in the middle, nothing but zero words - 8 and 20000 of them -, and 20000 non-zero words) with destination absent, pre-existing (longer, of exactly the new length, beginning with the new image, a prefix of it, identical to it), defaulted, /dev/full, a path in a missing directory, a path in a read-only directory, a directory; (iii) a valid program with EVERY write(2) to the destination failed with ENOSPC, one at a time and from the K-th on (strace -e inject). Oracle: exit 0 => the destination holds the complete reference object file; exit != 0 => for (i) and (ii) the destination is byte-identical to before (absent stays absent); for (iii) too (destination pre-existing and absent). non-trivial = distinct fault cases that satisfied the oracle",
        true,
        &["success-with-complete-file", "failure-leaves-destination"],
        &["strace fault injection models a device that stops accepting data mid-stream", "running as root: the read-only directory case may be writable and then counts as a plain success"],
        json!({"strace": have_strace, "cases": cases.len()}),
    )
}

pub fn replay(ctx: &Ctx, case: &Value) -> Option<Option<String>> {
    let lace = Lace::new(&ctx.lace_bin, &ctx.scratch);
    let src = case["source"].as_str()?;
    lace.write("in.asm", src.as_bytes());
    lace.write("out.lc3", OLD);
    let dest = match case["destination"].as_str()? {
        "devfull" => "/dev/full",
        _ => "out.lc3",
    };
    let r = lace.run(&["compile", "in.asm", dest], b"");
    let after = std::fs::read(lace.cwd.join("out.lc3")).ok();
    Some(Some(format!("exit {} ; destination now {:?} bytes (was {})", r.status, after.map(|a| a.len()), OLD.len())))
}
