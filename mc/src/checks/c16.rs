//! C16 — a debugger session always makes progress.

use super::dbgcommon::*;
use crate::bfs::{self, St};
use crate::isolate::Env;
use crate::refmodel::asm::*;
use crate::refmodel::dbg::{Cmd, Loc};
use crate::report::{finish, Acc, Ctx, Level};
use crate::session::{Ended, Obs};
use serde_json::{json, Value};

/// Programs that reach the PCs named by the property: xFFFF by a computed jump, below the origin,
/// xFE00 and above, parked on HALT; plus an ordinary loop.
pub fn programs16() -> Vec<Prog> {
    let mut v = Vec::new();
    let jump = |name: &'static str, target: u16, orig: Option<u16>| -> Prog {
        let mut p = Program::default();
        if let Some(o) = orig {
            p.items.push(Item::Orig(Lit::hex(o)));
        }
        p.push(Some("first"), Stmt::Mem(PcRel::Ld, 1, lbl("target")));
        p.push(None, Stmt::Jmp(1));
        p.push(Some("end"), Stmt::Named(0x25, "halt"));
        p.push(Some("target"), Stmt::Fill(Lit::hex(target)));
        Prog::new(name, p, true)
    };
    v.push(jump("jump-to-xFFFF", 0xFFFF, None));
    v.push(jump("jump-below-origin", 0x2FFF, None));
    v.push(jump("jump-to-x0000", 0x0000, Some(0x0200)));
    v.push(jump("jump-to-xFE00", 0xFE00, None));
    v.push(jump("jump-to-xFFFE", 0xFFFE, None));
    v.push(jump("jump-to-own-halt", 0x3002, None));
    let mut p = Program::default();
    p.push(Some("first"), Stmt::Named(0x25, "halt"));
    p.push(Some("end"), Stmt::Add(0, 0, Src2::Imm(Lit::dec(1))));
    v.push(Prog::new("parked-on-halt", p, true));
    let mut p = Program::default();
    p.push(Some("first"), Stmt::Add(1, 1, Src2::Imm(Lit::dec(2))));
    p.push(Some("loop"), Stmt::Add(1, 1, Src2::Imm(Lit::dec(-1))));
    p.push(None, Stmt::Br(0b001, "brp".into(), lbl("loop")));
    p.push(Some("end"), Stmt::Named(0x25, "halt"));
    v.push(Prog::new("short-loop", p, true));
    // runs off the top of user space
    let mut p = Program::default();
    p.items.push(Item::Orig(Lit::hex(0xFDFE)));
    p.push(Some("first"), Stmt::Add(1, 1, Src2::Imm(Lit::dec(2))));
    p.push(Some("end"), Stmt::Br(0b001, "brp".into(), Target::Lit(Lit::dec(0))));
    v.push(Prog::new("top-of-user-space", p, true));
    // every opcode and output trap once: nothing but HALT may be treated as "cannot execute"
    let mut k = every_kind();
    k.ast.items.insert(0, Item::LBreak("first".into()));
    v.push(Prog::new("every-instruction-kind", k.ast, true));
    v.push(writes_halt_ahead());
    // recursion in which control reaches a stepped-over call's return address while outer calls
    // are still open
    v.push(shared_return_address_labelled(Some("first"), "end"));
    // words the debugger treats specially (returns, calls, HALT) lying at the out-of-bounds
    // address the program runs or jumps into
    for (name, words) in [("runs-into-RET-at-xFE00", [0xC1C0u16, 0x4800]), ("runs-into-JSR-at-xFE00", [0x4801, 0xC1C0]), ("runs-into-HALT-at-xFE00", [0xF025, 0xD800])] {
        let mut p = Program::default();
        p.items.push(Item::Orig(Lit::hex(0xFDFE)));
        p.push(Some("first"), Stmt::Add(1, 1, Src2::Imm(Lit::dec(2))));
        p.push(Some("end"), Stmt::Add(1, 1, Src2::Imm(Lit::dec(1))));
        p.push(None, Stmt::Fill(Lit::hex(words[0])));
        p.push(None, Stmt::Fill(Lit::hex(words[1])));
        v.push(Prog::new(name, p, true));
    }
    // a `.break` of the source lying on the first word beyond user space, and one on its last word
    for (name, at) in [("break-at-xFE00", 2usize), ("break-at-xFDFF", 1)] {
        let mut p = Program::default();
        p.items.push(Item::Orig(Lit::hex(0xFDFE)));
        let stmts = [(Some("first"), Stmt::Add(1, 1, Src2::Imm(Lit::dec(2)))), (Some("end"), Stmt::Add(1, 1, Src2::Imm(Lit::dec(1)))), (None, Stmt::Add(1, 1, Src2::Imm(Lit::dec(1)))), (None, Stmt::Named(0x25, "halt"))];
        for (i, (l, st)) in stmts.into_iter().enumerate() {
            if i == at {
                p.items.push(Item::Break);
            }
            p.push(l, st);
        }
        v.push(Prog::new(name, p, true));
    }
    // a recursive call in the last word of user space (the inner RET reaches xFE00 while the
    // outer call is still open), with a data word at xFE00 so that the loader's HALT is elsewhere
    let mut p = Program::default();
    p.items.push(Item::Orig(Lit::hex(0xFDF8)));
    p.push(Some("first"), Stmt::And(1, 1, Src2::Imm(Lit::dec(0))));
    p.push(None, Stmt::Add(1, 1, Src2::Imm(Lit::dec(2))));
    p.push(None, Stmt::Br(0b111, "brnzp".into(), lbl("again")));
    p.push(Some("down"), Stmt::Add(1, 1, Src2::Imm(Lit::dec(-1))));
    p.push(None, Stmt::Br(0b001, "brp".into(), lbl("again")));
    p.push(None, Stmt::Ret);
    p.push(Some("end"), Stmt::Named(0x25, "halt"));
    p.push(Some("again"), Stmt::Jsr(lbl("down")));
    p.push(None, Stmt::Fill(Lit::hex(0x0000)));
    v.push(Prog::new("recursive-call-in-last-word-of-user-space", p, true));
    // ... and stored there by the program before it jumps (xFFFF: a JSRR word)
    let mut p = Program::default();
    p.push(Some("first"), Stmt::Mem(PcRel::Ld, 0, lbl("word")));
    p.push(None, Stmt::Mem(PcRel::Ld, 1, lbl("target")));
    p.push(None, Stmt::Str(0, 1, Lit::dec(0)));
    p.push(None, Stmt::Jmp(1));
    p.push(Some("end"), Stmt::Named(0x25, "halt"));
    p.push(Some("word"), Stmt::Fill(Lit::hex(0x4080)));
    p.push(Some("target"), Stmt::Fill(Lit::hex(0xFFFF)));
    v.push(Prog::new("stores-JSRR-at-xFFFF-and-jumps", p, true));
    v
}

pub fn alphabet(prog: &Prog) -> Vec<Action> {
    let mut v = vec![
        Action::of(Cmd::Step),
        Action::of(Cmd::StepInto(1)),
        Action::of(Cmd::StepInto(60000)),
        Action::of(Cmd::StepOut),
        Action::of(Cmd::Continue),
        Action::of(Cmd::Registers),
        Action::of(Cmd::Goto(Loc::Label("first".into(), 0))),
        Action::of(Cmd::Reset),
        Action::of(Cmd::StepInto(2)),
        Action::of(Cmd::BreakAdd(Loc::Label("end".into(), 0))),
        Action::of(Cmd::BreakAdd(Loc::PcOff(0))),
        Action::of(Cmd::MoveReg(1, 0xFFFF)),
        Action::spelled("bogus command", Cmd::Eval(None)),
        Action::spelled("", Cmd::Eval(None)),
        // a HALT word written by the debugger over the next instruction
        Action::of(Cmd::MoveMem(Loc::PcOff(1), 0xF025)),
        // the word under the PC replaced by an ordinary instruction (when parked on HALT: the
        // HALT is gone and resuming must execute the new word)
        Action::of(Cmd::MoveMem(Loc::PcOff(0), 0x1021)),
    ];
    let _ = prog;
    v
}

/// The bound of the property: work <= c * (instructions + commands) + c', and no long idle run.
pub fn progress(obs: &Obs, what: &str) -> Option<Mismatch> {
    let c = obs.counters;
    match &obs.ended {
        Ended::Fuel => {
            return Some(Mismatch { sig: format!("progress/livelock/{what}"), what: format!("session did not end: {} loop iterations, but only {} instructions executed and {} commands read (longest run of idle iterations: {})", c.ticks, c.execs, c.commands, c.max_idle_run) });
        }
        Ended::Panic(p) => {
            let site = p.trim_start_matches("panic at ").split(':').take(2).collect::<Vec<_>>().join(":");
            return Some(Mismatch { sig: format!("progress/panic/{site}"), what: format!("session panicked: {p}") });
        }
        _ => {}
    }
    if c.ticks > 4 * (c.execs + c.commands) + 16 {
        return Some(Mismatch { sig: format!("progress/work-not-linear/{what}"), what: format!("{} loop iterations for {} instructions and {} commands", c.ticks, c.execs, c.commands) });
    }
    if c.max_idle_run > 4 {
        return Some(Mismatch { sig: format!("progress/idle-run/{what}"), what: format!("{} consecutive loop iterations without executing an instruction or reading a command", c.max_idle_run) });
    }
    None
}

/// Does the reference debugger finish the script and the detached run after it within half the
/// step budget?
fn reference_terminates(prog: &Prog, actions: &[&Action]) -> bool {
    use crate::refmodel::dbg::Pause;
    let (mut d, pauses) = run_ref(prog, actions);
    if pauses.iter().any(|p| matches!(p, Pause::Fuel | Pause::Unspecified)) {
        return false;
    }
    if matches!(pauses.last(), Some(Pause::Exit(_))) {
        return true;
    }
    let mut budget = SESSION_FUEL / 2;
    !matches!(d.run_detached(&mut budget), Pause::Fuel | Pause::Unspecified)
}

fn pc_class(prog: &Prog, pc: u16) -> &'static str {
    let orig = prog.image.origin();
    if pc == 0xFFFF {
        "pc=xFFFF"
    } else if pc < orig {
        "pc-below-origin"
    } else if pc >= 0xFE00 {
        "pc>=xFE00"
    } else {
        "pc-in-user-space"
    }
}

pub fn run(ctx: &Ctx) -> i32 {
    let _ = super::variant::measured();
    let progs = programs16();
    let alphabets: Vec<Vec<Action>> = progs.iter().map(alphabet).collect();
    let depth = ctx.tier.pick(7, 10);
    let roots: Vec<St> = (0..progs.len()).map(|i| St { tag: i as u32, hist: vec![], digest: i as u64 }).collect();
    let step = |acc: &mut Acc, s: &St| -> Vec<St> {
        let i = s.tag as usize;
        let prog = &progs[i];
        let alpha = &alphabets[i];
        let mut out = Vec::new();
        for ai in 0..alpha.len() {
            let mut hist = s.hist.clone();
            hist.push(ai as u8);
            let actions: Vec<&Action> = hist.iter().map(|k| &alpha[*k as usize]).collect();
            acc.eval("transition");
            // 1. the property's own shape: finite script, then end of input
            // 2. the same script + exit: progress while attached, and the state for deduplication
            let judge = || -> Result<Obs, Mismatch> {
                let eof = run_real(prog, &actions, Tail::Eof, true).map_err(|(sig, what)| Mismatch { sig: format!("progress/{sig}"), what })?;
                let paused = run_real(prog, &actions, Tail::Exit, true).map_err(|(sig, what)| Mismatch { sig: format!("progress/{sig}"), what })?;
                let where_ = pc_class(prog, paused.machine.pc);
                if let Some(m) = progress(&paused, &format!("attached/{where_}")) {
                    return Err(m);
                }
                if let Some(m) = progress(&eof, &format!("end-of-input/{where_}")) {
                    return Err(m);
                }
                Ok(paused)
            };
            let mut r = judge();
            if r.is_err() {
                r = crate::isolate::confirm_fresh(judge);
            }
            // "terminates whenever the program itself does": a session that used up its budget
            // while executing instructions is only a violation if the reference session ends
            if let Err(m) = &r {
                if m.sig.starts_with("progress/livelock") && !reference_terminates(prog, &actions) {
                    acc.skip("the program itself does not terminate within the step budget after these commands");
                    continue;
                }
            }
            match r {
                Ok(paused) => {
                    acc.nontrivial();
                    let where_ = pc_class(prog, paused.machine.pc);
                    acc.gate(where_);
                    if crate::refmodel::dbg::is_halt(paused.machine.mem[paused.machine.pc as usize]) && where_ == "pc-in-user-space" {
                        acc.gate("parked-on-halt");
                    }
                    acc.outcome(format!("{}/{}/{}", prog.name, cmd_kind(&alpha[ai].cmd), where_));
                    if hist.len() <= 2 && ai % 2 == 0 {
                        acc.sample(format!("{i}/{hist:?}"), json!({"program": prog.name, "script": script_of(&actions, Tail::Eof), "then": "end of input", "paused_pc_before_eof": format!("x{:04x}", paused.machine.pc), "loop_iterations": paused.counters.ticks, "instructions": paused.counters.execs, "commands": paused.counters.commands}));
                    }
                    out.push(St { tag: s.tag, hist, digest: obs_digest(&paused) });
                }
                Err(m) => {
                    acc.outcome(format!("violation:{}", m.sig));
                    acc.violation(format!("C16/{}", m.sig), m.what, case_json(prog, "c16", &hist, &actions, Tail::Eof));
                }
            }
        }
        out
    };
    let cfg = bfs::Config { max_depth: depth, dedup: true, state_cap: 4_000_000, wall_cap_s: ctx.tier.pick(45, 1200) };
    let (mut acc, stats) = bfs::explore(roots, &cfg, Some(Env::new(true)), step);
    // Commands on piped standard input, through the real binary: lines of every length around
    // 2^10 and 2^12 and far beyond, alone, twice, and followed by a short one; with and without a
    // final newline. The session must end (end of input = quit) and run every command once.
    {
        let lace = crate::cli::Lace::new(&ctx.lace_bin, &ctx.scratch);
        lace.write("stdin16.asm", b"add r0 r0 #1\nhalt\n");
        let mut inputs: Vec<(String, Vec<u8>, usize)> = Vec::new();
        for len in [10usize, 1000, 1017, 1018, 1019, 1020, 1023, 1024, 1025, 1100, 2048, 4090, 4096, 4097, 8192, 70000] {
            let line = format!("echo {}", "A".repeat(len));
            inputs.push((format!("one-line-of-{len}"), format!("{line}\n").into_bytes(), 1));
            inputs.push((format!("one-line-of-{len}-without-newline"), line.clone().into_bytes(), 1));
            inputs.push((format!("two-lines-of-{len}"), format!("{line}\n{line}\n").into_bytes(), 2));
            inputs.push((format!("line-of-{len}-then-short"), format!("{line}\necho B\n").into_bytes(), 2));
            inputs.push((format!("short-then-line-of-{len}"), format!("echo B\n{line}\n").into_bytes(), 2));
        }
        let parts = crate::isolate::pooled(None, inputs.len(), 1, Acc::new, |acc, i| {
            let (name, input, echoes) = &inputs[i];
            acc.eval("stdin-lines");
            let run = lace.run_timeout(&["debug", "stdin16.asm", "--minimal"], input, &[("LACE_VERIF_FUEL", "200000")], None, 20);
            let case = json!({"stdin_lines": true, "name": name, "stdin_bytes": input.len()});
            let shown = run.err().lines().chain(run.out().lines()).filter(|l| l.contains("AAAAAAAAAA") || l.trim() == "[B]" || l.trim() == "B").count();
            if run.timed_out || run.status == 0xF0 {
                acc.outcome("violation:stdin-lines/does-not-end".to_string());
                acc.violation("C16/stdin-lines/session-does-not-end", format!("{name}: the session on piped commands did not end ({}); {} echo lines printed for {} commands", if run.timed_out { "killed after 20 s".to_string() } else { "command budget of the instrumented build exhausted".to_string() }, shown, echoes), case);
            } else if run.status == 101 || run.status >= 1000 {
                acc.violation("C16/stdin-lines/crash", format!("{name}: exit status {}", run.status), case);
            } else if shown != *echoes {
                acc.violation("C16/stdin-lines/commands-not-run-once", format!("{name}: {} echo lines printed for {} commands (exit status {})", shown, echoes, run.status), case);
            } else {
                acc.nontrivial();
                acc.gate("piped-sessions-ended");
                acc.outcome(format!("stdin-lines/status{}", run.status));
            }
        });
        for p in parts {
            acc.merge(p);
        }
    }
    finish(
        ctx,
        acc,
        Level { category: "model_checking", bfs: Some((stats.states, stats.transitions, 2 * stats.transitions, stats.max_depth)) },
        "explicit-state BFS over command histories (every resuming command incl. counts 1, 2 and 60000, registers, goto first, reset, break add at a label and at the PC, move r1 xFFFF — which redirects the computed jumps to xFFFF —, an unknown command, an empty command) on 11 programs: one that stores a HALT word over an instruction it is about to reach, a straight-line program with every opcode and output trap, and programs that reach PC=xFFFF by a computed jump, PCs below the origin (incl. x0000), xFE00, xFFFE, their own HALT, a program parked on HALT from the start, an ordinary loop and one running off the top of user space. Every transition runs the history twice on the real debugger: followed by end of input (the property's shape) and followed by `exit`; the hooks count loop iterations, executed instructions and consumed commands inside the run, and the check requires termination within the step budget, iterations <= 4*(instructions+commands)+16 and never more than 4 consecutive idle iterations. non-trivial = transitions satisfying the bound",
        !stats.capped,
        &["pc=xFFFF", "pc-below-origin", "pc>=xFE00", "pc-in-user-space", "parked-on-halt", "piped-sessions-ended"],
        &["fuel exhaustion is deterministic (counted loop iterations), so a livelock is a replayable verdict, not a timeout", "constants 4 and 16 are generous on purpose: the statement allows any constant"],
        json!({"depth": depth, "states": stats.states, "per_level": stats.per_level, "capped": stats.capped, "step_budget": SESSION_FUEL}),
    )
}

pub fn replay(_ctx: &Ctx, case: &Value) -> Option<Option<String>> {
    let name = case["program"].as_str()?;
    let hist: Vec<u8> = case["history"].as_array()?.iter().map(|v| v.as_u64().unwrap() as u8).collect();
    let progs = programs16();
    let prog = progs.iter().find(|p| p.name == name)?;
    let alpha = alphabet(prog);
    let actions: Vec<&Action> = hist.iter().map(|i| &alpha[*i as usize]).collect();
    Some(crate::isolate::confirm_fresh(|| {
        for tail in [Tail::Eof, Tail::Exit] {
            match run_real(prog, &actions, tail, true) {
                Ok(o) => {
                    if let Some(m) = progress(&o, &format!("{tail:?}")) {
                        return Some(format!("{}: {}", m.sig, m.what));
                    }
                }
                Err((sig, what)) => return Some(format!("{sig}: {what}")),
            }
        }
        None
    }))
}
