//! C04 — the assembler accepts exactly the programs whose operands fit.

use super::asmcommon::*;
use crate::gen::programs::*;
use crate::isolate::{confirm_fresh, pooled_by_flag, Env};
use crate::refmodel::asm::*;
use crate::report::{finish, Acc, Ctx, Level, Tier};
use crate::session::{assemble, Asm};
use serde_json::{json, Value};

/// Boundary words for a signed field of `bits` bits.
fn signed_boundary(bits: u32) -> Vec<u16> {
    let lo = -(1i32 << (bits - 1));
    let hi = (1i32 << (bits - 1)) - 1;
    let mut v: Vec<i32> = vec![lo - 1, lo, lo + 1, -2, -1, 0, 1, hi - 1, hi, hi + 1, 0x7FFF, -0x8000];
    v.dedup();
    v.into_iter().map(|x| x as u16).collect()
}

fn unsigned_boundary(bits: u32) -> Vec<u16> {
    let max = ((1u32 << bits) - 1) as u16;
    let mut v = vec![0, 1, max / 2, max / 2 + 1, max.wrapping_sub(1), max];
    if bits < 16 {
        v.extend([max + 1, 0x7FFF, 0x8000, 0xFFFF]);
    }
    v
}

pub struct Work {
    space: &'static str,
    prog: Program,
    stack: bool,
    layout: Layout,
}

fn stmts_with_lit(kind: usize, l: Lit) -> (Stmt, u32, bool) {
    // returns (statement, field bits, signed)
    match kind {
        0 => (Stmt::Add(1, 2, Src2::Imm(l)), 5, true),
        1 => (Stmt::And(7, 0, Src2::Imm(l)), 5, true),
        2 => (Stmt::Ldr(1, 2, l), 6, true),
        3 => (Stmt::Str(6, 7, l), 6, true),
        4 => (Stmt::Mem(PcRel::Ld, 1, Target::Lit(l)), 9, true),
        5 => (Stmt::Mem(PcRel::Ldi, 2, Target::Lit(l)), 9, true),
        6 => (Stmt::Mem(PcRel::Lea, 3, Target::Lit(l)), 9, true),
        7 => (Stmt::Mem(PcRel::St, 4, Target::Lit(l)), 9, true),
        8 => (Stmt::Mem(PcRel::Sti, 5, Target::Lit(l)), 9, true),
        9 => (Stmt::Br(0b111, "br".into(), Target::Lit(l)), 9, true),
        10 => (Stmt::Br(0b100, "brn".into(), Target::Lit(l)), 9, true),
        11 => (Stmt::Jsr(Target::Lit(l)), 11, true),
        12 => (Stmt::Trap(l), 8, false),
        _ => (Stmt::Fill(l), 16, false),
    }
}
const LIT_KINDS: usize = 14;

pub fn workload(tier: Tier) -> Vec<Work> {
    let mut w = Vec::new();
    // B1: every form with a literal operand x boundary values x every spelling, at statement
    // positions 0 and 2 (so that the literal-offset arithmetic is also exercised away from line 1)
    for kind in 0..LIT_KINDS {
        let (_, bits, signed) = stmts_with_lit(kind, Lit::dec(0));
        let values = if signed { signed_boundary(bits) } else { unsigned_boundary(bits) };
        for word in values {
            for l in Lit::spellings(word) {
                for pos in [0usize, 2] {
                    let (stmt, _, _) = stmts_with_lit(kind, l.clone());
                    let mut prog = Program::default();
                    for _ in 0..pos {
                        prog.push(None, Stmt::Not(0, 0));
                    }
                    let stack = matches!(stmt, Stmt::Call(_));
                    prog.push(None, stmt);
                    w.push(Work { space: "B1/operand-boundary", prog, stack, layout: Layout::PLAIN });
                }
            }
        }
    }
    // B1b: two literal-taking statements in one program: the first with a small in-range literal,
    // the second at the boundaries of ITS field and of the FIRST statement's field (a range
    // check that remembers anything from the previous literal shows here), in both orders
    for k1 in 0..LIT_KINDS {
        for k2 in 0..LIT_KINDS {
            let (_, b1, s1) = stmts_with_lit(k1, Lit::dec(0));
            let (_, b2, s2) = stmts_with_lit(k2, Lit::dec(0));
            if b1 == b2 && s1 == s2 {
                continue;
            }
            let mut vals: Vec<i32> = Vec::new();
            for (b, sg) in [(b1, s1), (b2, s2)] {
                if sg {
                    let m = 1i32 << (b - 1);
                    vals.extend([-m - 1, -m, m - 1, m]);
                } else {
                    let m = 1i32 << b;
                    vals.extend([m - 1, m]);
                }
            }
            vals.sort();
            vals.dedup();
            for v in vals {
                if !(-32768..=65535).contains(&v) {
                    continue;
                }
                let (first, _, _) = stmts_with_lit(k1, Lit::dec(1));
                let (second, _, _) = stmts_with_lit(k2, Lit::dec(v));
                let mut prog = Program::default();
                prog.push(None, first);
                prog.push(None, second);
                w.push(Work { space: "B1b/two-literal-statements", prog, stack: false, layout: Layout::PLAIN });
            }
        }
    }
    // B2: label distances at and beyond the field limits, and distances congruent to an in-range
    // offset modulo 2^16
    for kind in REF_KINDS {
        let b = kind.bits();
        let lo = -(1i64 << (b - 1));
        let hi = (1i64 << (b - 1)) - 1;
        let mut offs = vec![lo - 2, lo - 1, lo, lo + 1, hi - 1, hi, hi + 1, hi + 2, 0x7FFE, 0x7FFF, 0x8000, 0x8001, -0x7FFF, -0x8000, -0x8001, -0x8002];
        for d in [-1i64, 0, 1] {
            offs.push(65536 + lo + d);
            offs.push(65536 - 1 + d - 1);
            offs.push(-65536 + hi + d);
            offs.push(-65536 + 2 + d);
        }
        if tier == Tier::Quick {
            offs.retain(|o| o.abs() < 40000 || kind == RefKind::Br || kind == RefKind::Jsr);
        }
        for off in offs {
            if let Some(prog) = far_label(kind, off) {
                w.push(Work { space: "B2/label-distance", prog, stack: kind == RefKind::Call, layout: Layout::PLAIN });
            }
        }
    }
    // B2b: short references placed around statement numbers where a narrowed line counter changes
    // sign or wraps (2^15, 2^14, 2^8): padding, then a reference one or two statements away
    for kind in REF_KINDS {
        for pad in [0x7FFCu32, 0x7FFD, 0x7FFE, 0x7FFF, 0x8000, 0x8001, 0x3FFF, 0x4000, 0xFF, 0x100, 0xFFF0] {
            for fwd in [true, false] {
                let mut prog = Program::default();
                let mut left = pad;
                while left > 0 {
                    let c = left.min(0x7FFF);
                    prog.push(None, Stmt::Blkw(Lit::hex(c as u16)));
                    left -= c;
                }
                if fwd {
                    prog.push(None, kind.stmt("near", 1));
                    prog.push(None, Stmt::Not(0, 0));
                    prog.push(Some("near"), Stmt::Named(0x25, "halt"));
                } else {
                    prog.push(Some("near"), Stmt::Not(0, 0));
                    prog.push(None, Stmt::Not(1, 1));
                    prog.push(None, kind.stmt("near", 1));
                }
                w.push(Work { space: "B2b/reference-across-line-counter-boundary", prog, stack: kind == RefKind::Call, layout: Layout::PLAIN });
            }
        }
    }
    // B2c: literal PC offsets in the last statements a program can have (statement numbers
    // 65533..65535) and around 2^15: `line + 1 + offset` wraps there
    for pad in [0xFFFCu32, 0xFFFD, 0xFFFE, 0x7FFD, 0x7FFE, 0x7FFF] {
        for kind in [4usize, 6, 9, 11] {
            let (_, bits, _) = stmts_with_lit(kind, Lit::dec(0));
            let m = 1i32 << (bits - 1);
            for v in [-m - 1, -m, -1, 0, 1, m - 1, m] {
                let mut prog = Program::default();
                let mut left = pad;
                while left > 0 {
                    let c = left.min(0x7FFF);
                    prog.push(None, Stmt::Blkw(Lit::hex(c as u16)));
                    left -= c;
                }
                let (stmt, _, _) = stmts_with_lit(kind, Lit::dec(v));
                prog.push(None, stmt);
                w.push(Work { space: "B2c/literal-offset-in-last-statements", prog, stack: false, layout: Layout::PLAIN });
            }
        }
    }
    // B3: full unsigned ranges: every .orig value, every TRAP vector value up to 300
    for o in 0..=0xFFFFu32 {
        for lit in [Lit::hex(o as u16), Lit::dec(o as i32)] {
            let mut prog = Program::default();
            prog.items.push(Item::Orig(lit));
            prog.push(None, Stmt::Named(0x25, "halt"));
            w.push(Work { space: "B3/orig-range", prog, stack: false, layout: Layout::PLAIN });
        }
    }
    for v in 0..=300u16 {
        for l in [Lit::hex(v), Lit::dec(v as i32)] {
            w.push(Work { space: "B3/trap-range", prog: Program::of(vec![Stmt::Trap(l)]), stack: false, layout: Layout::PLAIN });
        }
    }
    // B4: labels: undefined, duplicate, case-differing, at every pair of positions
    for kind in REF_KINDS {
        for n in 1..=3usize {
            for i in 0..n {
                // undefined
                let mut prog = Program::default();
                for pos in 0..n {
                    prog.push(if pos != i { Some(["l0", "l1", "l2"][pos]) } else { None }, if pos == i { kind.stmt("nowhere", pos) } else { filler(pos % 4) });
                }
                w.push(Work { space: "B4/undefined-label", prog, stack: kind == RefKind::Call, layout: Layout::PLAIN });
                for j in 0..n {
                    // case-differing: defined as "Tgt", referenced as "tgt"
                    let mut prog = Program::default();
                    for pos in 0..n {
                        prog.push(if pos == j { Some("Tgt") } else { None }, if pos == i { kind.stmt("tgt", pos) } else { filler(pos % 4) });
                    }
                    w.push(Work { space: "B4/case-differing-label", prog, stack: kind == RefKind::Call, layout: Layout::PLAIN });
                    // both spellings defined: the reference picks its own
                    if n >= 2 && j != (j + 1) % n {
                        let mut prog = Program::default();
                        for pos in 0..n {
                            let label = if pos == j { Some("Tgt") } else if pos == (j + 1) % n { Some("tgt") } else { None };
                            prog.push(label, if pos == i { kind.stmt("tgt", pos) } else { filler(pos % 4) });
                        }
                        w.push(Work { space: "B4/two-case-variants", prog, stack: kind == RefKind::Call, layout: Layout::PLAIN });
                    }
                    // duplicate definitions on j and k
                    for k in (j + 1)..n {
                        let mut prog = Program::default();
                        for pos in 0..n {
                            prog.push(if pos == j || pos == k { Some("dup") } else { None }, if pos == i { kind.stmt("dup", pos) } else { filler(pos % 4) });
                        }
                        w.push(Work { space: "B4/duplicate-label", prog, stack: kind == RefKind::Call, layout: Layout::PLAIN });
                    }
                }
            }
        }
    }
    // B4b: labels in front of `.break` / `.orig` (they mark the next statement's address): duplicates
    // that are separated only by such a directive, two different labels on one address, a trailing one
    for kind in REF_KINDS {
        let stack = kind == RefKind::Call;
        let mk = |items: Vec<Item>| Work { space: "B4b/label-before-directive", prog: Program { items }, stack, layout: Layout::PLAIN };
        let st = |l: Option<&str>, s: Stmt| Item::Stmt { label: l.map(|x| x.to_string()), stmt: s };
        let r = |name: &str| kind.stmt(name, 1);
        w.push(mk(vec![Item::LBreak("dup".into()), st(Some("dup"), filler(0)), st(None, r("dup"))]));
        w.push(mk(vec![Item::LOrig("dup".into(), Lit::hex(0x3000)), st(Some("dup"), filler(0)), st(None, r("dup"))]));
        w.push(mk(vec![st(Some("dup"), filler(0)), Item::LBreak("dup".into()), st(None, r("dup"))]));
        w.push(mk(vec![Item::LBreak("dup".into()), Item::LBreak("dup".into()), st(None, r("dup"))]));
        w.push(mk(vec![Item::LBreak("dup".into()), Item::Break, Item::LOrig("dup".into(), Lit::hex(0x3000)), st(None, r("dup"))]));
        w.push(mk(vec![st(None, r("dup")), st(Some("dup"), filler(1)), st(None, filler(0)), Item::LBreak("dup".into())]));
        // valid: two names for one address, a label after the last statement
        w.push(mk(vec![Item::LBreak("a".into()), st(Some("b"), filler(0)), st(None, r("a")), st(None, kind.stmt("b", 2))]));
        w.push(mk(vec![st(None, r("tail")), st(None, filler(0)), Item::LBreak("tail".into())]));
        w.push(mk(vec![Item::LOrig("o".into(), Lit::hex(0x4000)), st(None, r("o")), st(None, filler(3))]));
    }
    // B5: .orig zero to three times at every position of a 3-statement program
    for mask in 0..64usize {
        // two bits per gap (4 gaps): we only keep masks with <= 3 origins, one per gap
        let gaps: Vec<bool> = (0..4).map(|g| mask >> g & 1 == 1).collect();
        if mask >= 16 {
            break;
        }
        let mut prog = Program::default();
        let stmts = [Stmt::Add(0, 0, Src2::Reg(0)), Stmt::Fill(Lit::hex(7)), Stmt::Named(0x25, "halt")];
        for g in 0..4 {
            if gaps[g] {
                prog.items.push(Item::Orig(Lit::hex(0x3000 + g as u16 * 0x100)));
            }
            if g < 3 {
                prog.push(None, stmts[g].clone());
            }
        }
        w.push(Work { space: "B5/orig-count", prog, stack: false, layout: Layout::PLAIN });
    }
    // the same with origins of which some are zero (x0000 is an origin like any other: a second
    // `.orig` behind it is still a second one), in hexadecimal and decimal spelling
    for mask in 0..16u32 {
        for (vi, vals) in [[Lit::hex(0x0000), Lit::hex(0x3000), Lit::hex(0x0000), Lit::hex(0x0001)], [Lit::dec(0), Lit::dec(0), Lit::hex(0x3000), Lit::dec(0)]].into_iter().enumerate() {
            let mut prog = Program::default();
            let stmts = [Stmt::Add(0, 0, Src2::Reg(0)), Stmt::Fill(Lit::hex(7)), Stmt::Named(0x25, "halt")];
            for g in 0..4 {
                if mask >> g & 1 == 1 {
                    prog.items.push(Item::Orig(vals[g].clone()));
                }
                if g < 3 {
                    prog.push(None, stmts[g].clone());
                }
            }
            let _ = vi;
            w.push(Work { space: "B5/orig-count", prog, stack: false, layout: Layout::PLAIN });
        }
    }
    // doubled .orig directly after each other
    let mut prog = Program::default();
    prog.items.push(Item::Orig(Lit::hex(0x3000)));
    prog.items.push(Item::Orig(Lit::hex(0x3000)));
    prog.push(None, Stmt::Named(0x25, "halt"));
    w.push(Work { space: "B5/orig-count", prog, stack: false, layout: Layout::PLAIN });
    // and the whole corpus of C01 (every operand value, label placement, label spelling, layout):
    // there the reference accepts everything, so any rejection is a violation of this property
    for c in super::c01::workload(tier) {
        w.push(Work { space: c.space, prog: c.prog, stack: c.stack, layout: c.layout });
    }
    w
}

/// Texts whose literal does not even fit 16 bits: must be rejected with a diagnostic.
pub const UNREPRESENTABLE: [&str; 10] = [
    ".fill #65536",
    ".fill x10000",
    ".fill #-32769",
    ".fill x-8001",
    ".orig #65536",
    ".orig x10000",
    "add r0 r0 #65536",
    "ldr r0 r0 #-32769",
    "trap x10000",
    "br #99999",
];

pub fn run(ctx: &Ctx) -> i32 {
    let work = workload(ctx.tier);
    let parts = pooled_by_flag(work.len(), 64, |i| work[i].stack, Acc::new, |acc, i| {
        let wk = &work[i];
        let text = print(&wk.prog, &wk.layout).text;
        acc.eval(wk.space);
        let culprit = |prog: &Program| -> String {
            // the statement of interest: last statement for single-focus programs
            let n = prog.items.len();
            if n == 0 { "empty".into() } else { item_kind(prog, n - 1) }
        };
        let mut verdict = compare(&wk.prog, &text, wk.stack);
        if !matches!(verdict, Verdict::AgreeOk | Verdict::AgreeReject(..) | Verdict::NotJudged(_)) {
            // only a run on a fresh OS thread decides
            verdict = confirm_fresh(|| compare(&wk.prog, &text, wk.stack));
        }
        match verdict {
            Verdict::AgreeOk => {
                acc.nontrivial();
                acc.gate("accepted-by-both");
                acc.outcome(format!("accept/{}", wk.space));
            }
            Verdict::AgreeReject(r, e) => {
                acc.nontrivial();
                acc.gate("rejected-by-both");
                acc.outcome(format!("reject/{}/{}", reject_class(&r), e.stage));
                if i % 1201 == 0 {
                    acc.sample(format!("{i}"), json!({"space": wk.space, "source": text.chars().take(200).collect::<String>(), "reference": format!("{r:?}"), "diagnostic": e.message}));
                }
            }
            Verdict::ImageDiffers { what, sig } => {
                acc.outcome(format!("violation:{sig}"));
                acc.violation(format!("C04/accepted-but-{sig}"), format!("accepted, but {what}"), case_json(&wk.prog, &text, wk.stack));
            }
            Verdict::AcceptsInvalid { reject, .. } => {
                let item = reject_item(&reject).map(|it| item_kind(&wk.prog, it)).unwrap_or_default();
                let sig = format!("C04/accepts-invalid/{}/{}", reject_class(&reject), item);
                acc.outcome(format!("violation:{sig}"));
                acc.violation(sig, format!("accepted although {reject:?}"), case_json(&wk.prog, &text, wk.stack));
            }
            Verdict::RejectsValid { err } => {
                let sig = format!("C04/rejects-valid/{}/{}/{}", wk.space, culprit(&wk.prog), err.code);
                acc.outcome(format!("violation:{sig}"));
                acc.violation(sig, format!("rejected a program whose operands all fit: {} ({})", err.message, err.stage), case_json(&wk.prog, &text, wk.stack));
            }
            Verdict::Panic(stopped) => {
                let sig = format!("C04/panic/{}/{}", culprit(&wk.prog), stopped.panic_site());
                acc.outcome(format!("violation:{sig}"));
                acc.violation(sig, format!("assembler stopped with {}", stopped.short()), case_json(&wk.prog, &text, wk.stack));
            }
            Verdict::NotJudged(why) => acc.skip(why),
        }
    });
    let mut acc = Acc::merge_all(parts);
    for text in UNREPRESENTABLE {
        acc.eval("B6/unrepresentable-literal");
        match assemble(text, Env::new(false)) {
            Ok(Asm::Err(_)) => {
                acc.nontrivial();
                acc.outcome("reject/unrepresentable");
            }
            Ok(Asm::Ok(ok)) => acc.violation("C04/accepts-invalid/unrepresentable-literal", format!("`{text}` accepted as {:04x?}", ok.words), json!({"source": text, "stack_feature": false, "reference": {"accept": false, "reason": "literal does not fit 16 bits"}})),
            Err(s) => acc.violation(format!("C04/panic/unrepresentable-literal/{}", s.panic_site()), format!("`{text}`: {}", s.short()), json!({"source": text, "stack_feature": false, "reference": {"accept": false, "reason": "literal does not fit 16 bits"}})),
        }
    }
    finish(
        ctx,
        acc,
        Level { category: "model_checking", bfs: None },
        "bounded-exhaustive enumeration: every literal-taking statement form x boundary values (min-1,min,min+1,-2,-1,0,1,max-1,max,max+1,16-bit extremes) x every spelling x two statement positions; label distances at/around every field limit and congruent modulo 2^16 (built with .blkw); all 65536 .orig values and 301 trap vectors in two spellings; undefined / duplicate / case-differing labels at every position pair; .orig 0-4 times at every gap; literals beyond 16 bits; plus the whole C01 corpus (which the reference accepts). Oracle: accepted iff the reference accepts, and when accepted the image equals the reference image (so truncation/spill is caught); a panic is a violation. non-trivial = both sides agree (accept or reject), each case a distinct text",
        true,
        &["accepted-by-both", "rejected-by-both"],
        &["reference acceptance rule = the property statement's field ranges; literals denote 16-bit words, signed fields read them as two's complement"],
        json!({}),
    )
}

pub fn replay(_ctx: &Ctx, case: &Value) -> Option<Option<String>> {
    replay_source(case)
}
