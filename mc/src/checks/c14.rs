//! C14 — the command language is total, unambiguous and transport-independent.

use super::dbgcommon::*;
use crate::cli::Lace;
use crate::isolate::{confirm_fresh, guard, pooled, Env};
use crate::refmodel::cmdlang::{self, Loc as RLoc};
use crate::refmodel::dbg::{Cmd, Loc};
use crate::report::{finish, Acc, Ctx, Level, Tier};
use crate::util;
use lace::debugger::verif_parse_command;
use serde_json::{json, Value};

// 'ı' (U+0131) and 'Ų' (U+0172) are letters whose code points end in the bytes of '1' and 'r': a
// parser that narrows a character to a byte reads them as a digit / the register prefix
pub const SIGMA: [char; 19] = ['+', '-', '#', 'x', 'o', 'b', '0', '1', '7', '9', 'a', 'f', 'g', '^', 'r', '_', 'é', 'ı', 'Ų'];

/// The six argument positions and what the reference expects there.
/// Returns the Debug rendering of the command lace should produce, or Err for "must be rejected",
/// or Ok(None) for "not judged".
pub fn expect(ctx_id: usize, tok: &str) -> Result<Option<String>, ()> {
    match ctx_id {
        0 => cmdlang::integer_u16(tok).map(|v| Some(format!("Move {{ location: Register(R0), value: {v} }}"))),
        1 => {
            // negative counts: help.txt says "Repeats COUNT times", the code comment says
            // non-positive counts become 1, the code casts them: not judged
            if matches!(cmdlang::integer(tok, false), cmdlang::Int::Val(v) if v < 0) {
                return Ok(None);
            }
            cmdlang::integer_u16(tok).map(|v| Some(format!("StepInto {{ count: {} }}", v.max(1))))
        }
        2 => cmdlang::location(tok).map(|l| Some(format!("Print {{ location: {} }}", l.location_debug()))),
        3 => cmdlang::location(tok).map(|l| Some(format!("Move {{ location: {}, value: 1 }}", l.location_debug()))),
        4 => cmdlang::memory_location(tok).map(|l| Some(format!("Goto {{ location: {} }}", l.memory_debug()))),
        _ => cmdlang::memory_location(tok).map(|l| Some(format!("BreakAdd {{ location: {} }}", l.memory_debug()))),
    }
}

pub fn line(ctx_id: usize, tok: &str) -> String {
    match ctx_id {
        0 => format!("move r0 {tok}"),
        1 => format!("si {tok}"),
        2 => format!("print {tok}"),
        3 => format!("move {tok} 1"),
        4 => format!("goto {tok}"),
        _ => format!("ba {tok}"),
    }
}

const CTX_NAMES: [&str; 6] = ["integer(move value)", "integer(step count)", "location(print)", "location(move)", "address(goto)", "address(break add)"];

fn tok_class(tok: &str) -> &'static str {
    let c = tok.chars().next().unwrap_or(' ');
    if c == '^' {
        "pc-offset"
    } else if tok.chars().any(|c| !c.is_ascii()) {
        "non-ascii"
    } else if c.is_ascii_digit() || c == '#' || c == '+' || c == '-' {
        "number-like"
    } else if c == 'r' {
        "r-word"
    } else {
        "word"
    }
}

pub fn judge_parse(ctx_id: usize, tok: &str) -> Result<(), (String, String)> {
    let text = line(ctx_id, tok);
    let want = expect(ctx_id, tok);
    let got = guard(|| verif_parse_command(&text));
    match (got, want) {
        (Err(stopped), _) => Err((format!("parse/panic/{}/{}", stopped.panic_site(), tok_class(tok)), format!("`{text}` made the parser panic: {}", stopped.short()))),
        (Ok(_), Ok(None)) => Ok(()),
        (Ok(Ok(cmd)), Ok(Some(w))) => {
            if cmd == w {
                Ok(())
            } else {
                Err((format!("parse/wrong-value/{}/{}", CTX_NAMES[ctx_id], tok_class(tok)), format!("`{text}` parsed to {cmd}, the documented grammar gives {w}")))
            }
        }
        (Ok(Ok(cmd)), Err(())) => Err((format!("parse/accepts-invalid/{}/{}", CTX_NAMES[ctx_id], tok_class(tok)), format!("`{text}` is not in the documented grammar but parsed to {cmd}"))),
        (Ok(Err(e)), Ok(Some(w))) => Err((format!("parse/rejects-valid/{}/{}", CTX_NAMES[ctx_id], tok_class(tok)), format!("`{text}` rejected ({}) but the documented grammar gives {w}", e.replace('\n', " ")))),
        (Ok(Err(_)), Err(())) => Ok(()),
    }
}

/// Every documented spelling of the integer `v`.
pub fn spellings(v: i64) -> Vec<String> {
    let m = v.unsigned_abs();
    let mut out = Vec::new();
    let bodies: Vec<(String, String)> = vec![
        ("".into(), format!("{m}")),
        ("#".into(), format!("{m}")),
        ("x".into(), format!("{m:x}")),
        ("X".into(), format!("{m:X}")),
        ("0x".into(), format!("{m:x}")),
        ("o".into(), format!("{m:o}")),
        ("0o".into(), format!("{m:o}")),
        ("b".into(), format!("{m:b}")),
        ("0B".into(), format!("{m:b}")),
        ("x".into(), format!("00{m:x}")),
        ("#".into(), format!("0{m}")),
    ];
    for (pre, body) in bodies {
        if v >= 0 {
            out.push(format!("{pre}{body}"));
            out.push(format!("+{pre}{body}"));
            if !pre.is_empty() {
                out.push(format!("{pre}+{body}"));
            }
        } else {
            out.push(format!("-{pre}{body}"));
            if !pre.is_empty() {
                out.push(format!("{pre}-{body}"));
            }
        }
    }
    out
}

/// Names documented in help.txt: (name, Debug prefix of the command, arguments to append).
const DOCUMENTED: [(&str, &str, &str); 30] = [
    ("help", "Help", ""), ("h", "Help", ""),
    ("step", "StepOver", ""), ("s", "StepOver", ""),
    ("step into", "StepInto", ""), ("si", "StepInto", ""),
    ("step out", "StepOut", ""), ("so", "StepOut", ""),
    ("continue", "Continue", ""), ("c", "Continue", ""),
    ("registers", "Registers", ""), ("r", "Registers", ""),
    ("print", "Print", " r1"), ("p", "Print", " r1"),
    ("move", "Move", " r1 5"), ("m", "Move", " r1 5"),
    ("goto", "Goto", " x3000"), ("g", "Goto", " x3000"),
    ("break add", "BreakAdd", " x3000"), ("ba", "BreakAdd", " x3000"),
    ("break remove", "BreakRemove", " x3000"), ("br", "BreakRemove", " x3000"),
    ("break list", "BreakList", ""), ("bl", "BreakList", ""),
    ("assembly", "Assembly", ""), ("a", "Assembly", ""),
    ("eval", "Eval", " add r0 r0 r0"), ("e", "Eval", " add r0 r0 r0"),
    ("reset", "Reset", ""), ("z", "Reset", ""),
];

fn mixed(s: &str) -> String {
    s.chars().enumerate().map(|(i, c)| if i % 2 == 0 { c.to_ascii_uppercase() } else { c }).collect()
}

pub fn run(ctx: &Ctx) -> i32 {
    let _ = super::variant::measured();
    let max_len = ctx.tier.pick(5, 7);
    let k = SIGMA.len();
    let mut offsets = Vec::new();
    let mut total = 0usize;
    for len in 1..=max_len {
        offsets.push((len, total));
        total += util::pow(k, len);
    }
    // (a) every string up to max_len over SIGMA in each of the six argument positions
    let blocks = total.div_ceil(4096);
    let parts = pooled(None, blocks, 1, Acc::new, |acc, b| {
        for idx in (b * 4096)..((b + 1) * 4096).min(total) {
            let (len, off) = *offsets.iter().rev().find(|(_, o)| idx >= *o).unwrap();
            let tok: String = util::seq(idx - off, k, len).iter().map(|c| SIGMA[*c]).collect();
            for c in 0..6 {
                acc.evaluations += 1;
                match judge_parse(c, &tok) {
                    Ok(()) => {
                        match expect(c, &tok) {
                            Ok(Some(_)) => {
                                acc.nontrivial += 1;
                                *acc.outcomes.entry(format!("a/{}/accepted-with-documented-value", CTX_NAMES[c])).or_default() += 1;
                            }
                            Ok(None) => *acc.outcomes.entry(format!("a/{}/not-judged", CTX_NAMES[c])).or_default() += 1,
                            Err(()) => *acc.outcomes.entry(format!("a/{}/rejected", CTX_NAMES[c])).or_default() += 1,
                        }
                    }
                    Err((sig, what)) => {
                        acc.outcome(format!("violation:{sig}"));
                        acc.violation(format!("C14/{sig}"), what, json!({"line": line(c, &tok), "context": c, "token": tok}));
                    }
                }
            }
            if idx % 100003 == 0 {
                acc.sample(format!("{idx}"), json!({"token": tok, "lines": (0..6).map(|c| json!({"line": line(c, &tok), "documented_meaning": format!("{:?}", expect(c, &tok))})).collect::<Vec<_>>()}));
            }
        }
        *acc.spaces.entry("a/strings-x-positions".into()).or_default() += 0;
    });
    let mut acc = Acc::merge_all(parts);
    *acc.spaces.entry("a/strings-x-positions".into()).or_default() = acc.evaluations;
    acc.gate("strings-enumerated");

    // (a2) character sweep: every non-control character of the Basic Multilingual Plane (thorough:
    //      planes 0-3) at several places of a token, in each of the six argument positions
    {
        const SHAPES: [&str; 14] = ["{}", "1{}", "{}1", "x{}f", "x1{}", "r{}", "r0{}", "{}0", "lab{}", "{}lab", "^{}", "^1{}", "#{}5", "lab+{}"];
        let top: usize = ctx.tier.pick(0x1_0000, 0x4_0000);
        let parts = pooled(None, top / 256, 1, Acc::new, |acc, b| {
            for cp in (b * 256)..(b * 256 + 256) {
                let Some(ch) = char::from_u32(cp as u32) else { continue };
                // the plain space separates arguments and `;` separates commands (split off by the
                // reader before a command is parsed): neither can be part of one argument
                if ch.is_control() || ch == ' ' || ch == ';' {
                    continue;
                }
                for shape in SHAPES {
                    let tok = shape.replace("{}", &ch.to_string());
                    for c in 0..6 {
                        acc.evaluations += 1;
                        match judge_parse(c, &tok) {
                            Ok(()) => {
                                match expect(c, &tok) {
                                    Ok(Some(_)) => {
                                        acc.nontrivial += 1;
                                        *acc.outcomes.entry(format!("a2/{}/accepted-with-documented-value", CTX_NAMES[c])).or_default() += 1;
                                    }
                                    Ok(None) => *acc.outcomes.entry(format!("a2/{}/not-judged", CTX_NAMES[c])).or_default() += 1,
                                    Err(()) => *acc.outcomes.entry(format!("a2/{}/rejected", CTX_NAMES[c])).or_default() += 1,
                                }
                            }
                            Err((sig, what)) => {
                                acc.outcome(format!("violation:{sig}"));
                                acc.violation(format!("C14/{sig}/character-sweep"), what, json!({"line": line(c, &tok), "context": c, "token": tok}));
                            }
                        }
                    }
                }
            }
        });
        for p in parts {
            acc.merge(p);
        }
        acc.gate("characters-swept");
    }

    // (b) generative direction: every 16-bit value in every documented spelling
    let parts = pooled(None, 65536 + 32768, 256, Acc::new, |acc, i| {
        let v: i64 = if i < 65536 { i as i64 } else { -((i - 65536) as i64) - 1 };
        for s in spellings(v) {
            acc.eval("b/value-spellings");
            let want_u16 = if v >= 0 { v as u16 } else { v as i16 as u16 };
            let got = guard(|| verif_parse_command(&format!("move r0 {s}")));
            let ok = matches!(&got, Ok(Ok(c)) if *c == format!("Move {{ location: Register(R0), value: {want_u16} }}"));
            if !ok {
                acc.violation(format!("C14/parse/spelling-not-accepted/{}", if v < 0 { "negative" } else { "non-negative" }), format!("`move r0 {s}` should set the value {want_u16}, got {got:?}"), json!({"line": format!("move r0 {s}")}));
                continue;
            }
            if v >= 0 {
                let got = guard(|| verif_parse_command(&format!("goto {s}")));
                let ok = matches!(&got, Ok(Ok(c)) if *c == format!("Goto {{ location: Address({v}) }}"));
                // a bare hex/octal/binary word without sign or leading zero is documented to be an integer too
                if !ok {
                    acc.violation("C14/parse/address-spelling-not-accepted", format!("`goto {s}` should denote address {v}, got {got:?}"), json!({"line": format!("goto {s}")}));
                    continue;
                }
            }
            if v >= -32768 && v <= 32767 {
                let got = guard(|| verif_parse_command(&format!("print ^{s}")));
                let ok = matches!(&got, Ok(Ok(c)) if *c == format!("Print {{ location: Memory(PCOffset({v})) }}"));
                if !ok {
                    acc.violation("C14/parse/pc-offset-spelling-not-accepted", format!("`print ^{s}` should denote PC offset {v}, got {got:?}"), json!({"line": format!("print ^{s}")}));
                    continue;
                }
            }
            acc.nontrivial();
        }
    });
    for p in parts {
        acc.merge(p);
    }
    // the 32-bit boundary in each radix: never a panic, values beyond i32 rejected
    // ... and the values at which an accumulator guard of the form `value > MAX / radix` trips, each
    // also followed by a character that ends the digit run (label characters, an offset): such a
    // token is a label, a label with offset or a malformed integer, never "too large"
    let m = i32::MAX as i64;
    for base in [m - 2, m - 1, m, m + 1, m + 2, 4294967295, 4294967296, 99999999999, m / 16, m / 16 + 1, m / 10, m / 10 + 1, m / 8, m / 8 + 1, m / 2, m / 2 + 1] {
        for neg in [false, true] {
            let v = if neg { -base } else { base };
            for s in spellings(v) {
                for suffix in ["", "_", "g", "_tab", "+1", "-1"] {
                    if !suffix.is_empty() && base > m {
                        continue;
                    }
                    let tok = format!("{s}{suffix}");
                    acc.eval("b/i32-boundary");
                    for c in [0usize, 2, 4] {
                        if let Err((sig, what)) = judge_parse(c, &tok) {
                            acc.violation(format!("C14/{sig}"), what, json!({"line": line(c, &tok), "context": c, "token": tok}));
                        } else {
                            acc.nontrivial();
                        }
                    }
                }
            }
        }
    }

    // tokens of 250..=260 and 510..=514 digits (leading zeros): counters of digits or characters
    // in the parser must not be narrower than the token is long
    for n in (250usize..=260).chain(510..=514) {
        let zeros = "0".repeat(n - 4);
        for tok in [format!("x{zeros}beef"), format!("{zeros}1234"), format!("#{zeros}0042"), format!("b{zeros}1011"), format!("o{zeros}0777"), format!("-x{zeros}0001"), format!("x{zeros}beeg"), format!("lbl+{zeros}0001"), format!("^{zeros}0002"), format!("^-x{zeros}0002")] {
            acc.eval("b/long-tokens");
            for c in [0usize, 1, 2, 4] {
                if let Err((sig, what)) = judge_parse(c, &tok) {
                    let short: String = what.chars().take(300).collect();
                    acc.violation(format!("C14/{}/long-token", sig.split('/').take(2).collect::<Vec<_>>().join("/")), format!("token of {} characters: {short}", tok.len()), json!({"line": line(c, &tok), "context": c, "token": tok}));
                } else {
                    acc.nontrivial();
                }
            }
        }
    }
    // (c) command names: documented names in three letter cases; every word of <= 3 letters
    for (name, debug, args) in DOCUMENTED {
        for variant in [name.to_string(), name.to_uppercase(), mixed(name)] {
            acc.eval("c/documented-names");
            let text = format!("{variant}{args}");
            match guard(|| verif_parse_command(&text)) {
                Ok(Ok(c)) if c.starts_with(debug) => acc.nontrivial(),
                other => acc.violation(format!("C14/name/documented-name-not-accepted/{debug}"), format!("`{text}` should be the {debug} command, got {other:?}"), json!({"line": text})),
            }
        }
    }
    for (name, debug) in [("quit", "Quit"), ("q", "Quit"), ("exit", "Exit"), ("x", "Exit"), ("echo hi", "Echo")] {
        for variant in [name.to_string(), mixed(name)] {
            acc.eval("c/documented-names");
            match guard(|| verif_parse_command(&variant)) {
                Ok(Ok(c)) if c.starts_with(debug) => acc.nontrivial(),
                other => acc.violation(format!("C14/name/documented-name-not-accepted/{debug}"), format!("`{variant}` should be the {debug} command, got {other:?}"), json!({"line": variant})),
            }
        }
    }
    // (c2) no documented name contains a character outside ASCII: a name with one letter replaced
    //      by any non-ASCII character of the Basic Multilingual Plane is no command (whatever that
    //      character's lower- or upper-case form is)
    {
        let mut names: Vec<(String, String)> = DOCUMENTED.iter().map(|(n, _, a)| (n.to_string(), a.to_string())).collect();
        names.extend([("quit".to_string(), String::new()), ("exit".to_string(), String::new()), ("echo".to_string(), " hi".to_string()), ("q".to_string(), String::new()), ("x".to_string(), String::new())]);
        let mut slots: Vec<(usize, usize)> = Vec::new();
        for (ni, (n, _)) in names.iter().enumerate() {
            for (p, ch) in n.char_indices() {
                if ch != ' ' {
                    slots.push((ni, p));
                }
            }
        }
        let parts = pooled(None, slots.len(), 1, Acc::new, |acc, si| {
            let (ni, p) = slots[si];
            let (name, args) = &names[ni];
            for cp in 0x80u32..0x1_0000 {
                let Some(ch) = char::from_u32(cp) else { continue };
                if ch.is_control() || ch.is_whitespace() {
                    continue;
                }
                acc.evaluations += 1;
                let text = format!("{}{}{}{}", &name[..p], ch, &name[p + 1..], args);
                match guard(|| verif_parse_command(&text)) {
                    Ok(Err(_)) => acc.nontrivial += 1,
                    Ok(Ok(c)) => acc.violation(format!("C14/name/non-ascii-spelling-accepted/{}", c.split(|x: char| !x.is_alphanumeric()).next().unwrap_or("")), format!("`{text}` (U+{cp:04X} in place of `{}`) is no documented command but parsed to {c}", &name[p..p + 1]), json!({"line": text})),
                    Err(stopped) => acc.violation(format!("C14/name/panic/{}", stopped.panic_site()), format!("`{text}` made the parser panic: {}", stopped.short()), json!({"line": text})),
                }
            }
        });
        for p in parts {
            acc.merge(p);
        }
        acc.gate("names-swept");
    }
    // only the space separates a command from its arguments: a name glued to anything by another
    // white-space character is not a documented command line (and must not be read as the bare
    // command with the rest dropped)
    for (name, _, args) in DOCUMENTED {
        for sep in ['\t', '\u{A0}', '\u{2003}', '\r', '\u{B}', '\u{C}'] {
            for tail in [args.trim_start(), "garbage", "r1", "3 zzz"] {
                if tail.is_empty() {
                    continue;
                }
                acc.eval("c/other-white-space");
                let text = format!("{name}{sep}{tail}");
                match guard(|| verif_parse_command(&text)) {
                    Ok(Err(_)) => acc.nontrivial(),
                    other => acc.violation(format!("C14/name/other-white-space-separates/{}", if sep == '\t' { "tab" } else { "other" }), format!("`{}` (a {:?} between name and rest) should be rejected, got {other:?}", text.escape_debug(), sep), json!({"line": text})),
                }
            }
        }
    }
    // arguments documented as optional (`COUNT?`, `LOCATION?` in help.txt): the bare command means the documented default
    for (bare, explicit) in [("step into", "step into 1"), ("si", "si 1"), ("print", "print ^"), ("p", "p ^"), ("assembly", "assembly ^"), ("a", "a ^"), ("PRINT", "print ^0")] {
        acc.eval("c/documented-defaults");
        let a = guard(|| verif_parse_command(bare));
        let b = guard(|| verif_parse_command(explicit));
        match (&a, &b) {
            (Ok(Ok(x)), Ok(Ok(y))) if x == y => acc.nontrivial(),
            _ => acc.violation(format!("C14/name/documented-default-not-applied/{}", explicit.split(' ').next().unwrap_or("?").to_lowercase()), format!("help.txt documents the argument of `{bare}` as optional with a default, so it should mean `{explicit}` ({b:?}); got {a:?}"), json!({"line": bare})),
        }
    }
    let letters: Vec<char> = ('a'..='z').collect();
    let parts = pooled(None, 26 + 26 * 26 + 26 * 26 * 26, 64, Acc::new, |acc, i| {
        let word: String = if i < 26 { util::seq(i, 26, 1) } else if i < 26 + 676 { util::seq(i - 26, 26, 2) } else { util::seq(i - 26 - 676, 26, 3) }.iter().map(|c| letters[*c]).collect();
        if word == "sud" {
            return;
        }
        acc.eval("c/short-words-as-names");
        // case-insensitivity and totality: same verdict for the word and its upper-case form, with and without arguments
        for args in ["", " x3000", " r1 5", " into"] {
            let lower = guard(|| verif_parse_command(&format!("{word}{args}")));
            let upper = guard(|| verif_parse_command(&format!("{}{args}", word.to_uppercase())));
            match (lower, upper) {
                (Err(s), _) | (_, Err(s)) => {
                    acc.violation(format!("C14/name/panic/{}", s.panic_site()), format!("`{word}{args}`: {}", s.short()), json!({"line": format!("{word}{args}")}));
                    return;
                }
                (Ok(a), Ok(b)) => {
                    if a.is_ok() != b.is_ok() || (a.is_ok() && a != b) {
                        acc.violation("C14/name/case-sensitive", format!("`{word}{args}` gives {a:?} but upper-case gives {b:?}"), json!({"line": format!("{word}{args}")}));
                        return;
                    }
                }
            }
        }
        acc.nontrivial();
    });
    for p in parts {
        acc.merge(p);
    }

    // (d) effect level: tokens through the real debugger; the machine reveals the parse
    let prog = &programs()[0];
    let eff_len = ctx.tier.pick(3, 4);
    let mut toks: Vec<String> = Vec::new();
    for len in 1..=eff_len {
        for idx in 0..util::pow(k, len) {
            if len == 4 && idx % 5 != 0 {
                continue;
            }
            toks.push(util::seq(idx, k, len).iter().map(|c| SIGMA[*c]).collect());
        }
    }
    for l in ["loop", "end", "loop+1", "end-2", "loop+x2", "Loop", "loop-x7fff", "^2", "^-1"] {
        toks.push(l.to_string());
    }
    let parts = pooled(Some(Env::new(true)), toks.len(), 8, Acc::new, |acc, i| {
        let tok = &toks[i];
        for which in 0..3 {
            acc.eval("d/effects");
            let (text, cmd) = match which {
                0 => (format!("move r1 {tok}"), cmdlang::integer_u16(tok).ok().map(|v| Cmd::MoveReg(1, v))),
                1 => (format!("goto {tok}"), cmdlang::memory_location(tok).ok().map(|l| Cmd::Goto(to_loc(&l)))),
                _ => (format!("break add {tok}"), cmdlang::memory_location(tok).ok().map(|l| Cmd::BreakAdd(to_loc(&l)))),
            };
            // a rejected line is modelled as a command that is refused
            let action = Action::spelled(&text, cmd.unwrap_or(Cmd::Eval(None)));
            let pre = Action::of(Cmd::StepInto(2));
            let actions = [&pre, &action];
            let judge = || -> Result<(), Mismatch> {
                let obs = run_real(prog, &actions, Tail::Exit, true).map_err(|(sig, what)| Mismatch { sig, what })?;
                let (d, pauses) = run_ref(prog, &actions);
                compare_paused(prog, &actions, &obs, &d, &pauses).map(|_| ())
            };
            let mut r = judge();
            if r.is_err() {
                r = confirm_fresh(judge);
            }
            match r {
                Ok(()) => acc.nontrivial(),
                Err(m) => acc.violation(format!("C14/effect/{}/{}", ["move", "goto", "break-add"][which], m.sig.split('/').nth(1).unwrap_or("?")), format!("`{text}`: {}", m.what), json!({"effect": true, "line": text, "token": tok, "which": which})),
            }
        }
    });
    for p in parts {
        acc.merge(p);
    }

    // (e) transport: the same script through --command, stdin, or split; ';' or newline
    let lace = Lace::new(&ctx.lace_bin, &ctx.scratch);
    lace.write("t.asm", prog.text.as_bytes());
    let scripts: Vec<Vec<&str>> = vec![
        vec!["step", "registers", "step into 2", "print r1"],
        vec!["break add loop", "continue", "registers", "continue"],
        vec!["echo a b", "step", "bogus", "registers"],
        vec!["move r1 5", "print r1", "eval add r1 r1 #1", "print r1"],
        vec!["goto end", "step", "registers"],
        vec!["step", "exit"],
        vec!["continue", "quit"],
        vec!["print x3000", "assembly", "break list"],
        vec!["si 0x3", "p ^", "  registers  "],
        vec!["echo é", "print r0"],
        vec!["echo 𝄞 four bytes", "print r1", "echo € three"],
        vec!["echo a€𝄞é", "registers"],
        vec!["help"],
        vec![""],
        vec!["step", "", "registers"],
        vec!["move r1", "move r1 1 2", "registers"],
        vec!["step into 60000", "registers"],
        vec!["reset", "registers", "step"],
        // segments that are blank but not empty
        vec!["move r1 5", " ", "print r1"],
        vec!["step", "  ", "registers", " "],
        vec![" ", "registers"],
    ];
    let mut variants: Vec<(usize, Vec<String>, Vec<u8>, String)> = Vec::new();
    for (si, s) in scripts.iter().enumerate() {
        let n = s.len();
        for split in 0..=n {
            for sepmask in 0..(1usize << n.saturating_sub(1)).min(ctx.tier.pick(4, 8)) {
                for trailing in [false, true] {
                    let sep = |gap: usize| if sepmask >> gap & 1 == 1 { "\n" } else { ";" };
                    let mut arg = String::new();
                    for i in 0..split {
                        if i > 0 {
                            arg.push_str(sep(i - 1));
                        }
                        arg.push_str(s[i]);
                    }
                    let mut input = String::new();
                    for i in split..n {
                        if i > split {
                            input.push_str(sep(i - 1));
                        }
                        input.push_str(s[i]);
                    }
                    if trailing {
                        if split == n && split > 0 { arg.push(';'); } else if split < n { input.push('\n'); }
                    }
                    let mut args: Vec<String> = vec!["debug".into(), "t.asm".into(), "--minimal".into(), "-f".into(), "stack".into()];
                    if split > 0 {
                        args.push("--command".into());
                        args.push(arg.clone());
                    }
                    variants.push((si, args, input.into_bytes(), format!("split={split} sepmask={sepmask} trailing={trailing}")));
                }
            }
        }
    }
    let runs = pooled(None, variants.len(), 2, Runs::default, |r: &mut Runs, i| {
        let (si, args, input, _) = &variants[i];
        let a: Vec<&str> = args.iter().map(|s| s.as_str()).collect();
        let run = lace.run(&a, input);
        r.0.push((i, *si, run.status, run.out(), run.err()));
    });
    let mut all_runs: Vec<(usize, usize, i32, String, String)> = runs.into_iter().flat_map(|r| r.0).collect();
    all_runs.sort_by_key(|r| r.0);
    for si in 0..scripts.len() {
        let group: Vec<&(usize, usize, i32, String, String)> = all_runs.iter().filter(|r| r.1 == si).collect();
        if group.is_empty() {
            continue;
        }
        let first = group[0];
        for g in &group {
            acc.eval("e/transport");
            if g.2 == 101 || g.2 >= 1000 {
                acc.violation("C14/transport/crash", format!("script {:?} ({}): exit status {}", scripts[si], variants[g.0].3, g.2), json!({"transport": true, "script": scripts[si], "variant": variants[g.0].3, "args": variants[g.0].1, "stdin": String::from_utf8_lossy(&variants[g.0].2)}));
            } else if g.2 != first.2 || g.3 != first.3 || g.4 != first.4 {
                let what = if g.2 != first.2 { "exit-status" } else if g.3 != first.3 { "stdout" } else { "stderr" };
                acc.violation(format!("C14/transport/{what}-differs"), format!("script {:?}: variant [{}] differs from [{}] in {what}: {:?} vs {:?}", scripts[si], variants[g.0].3, variants[first.0].3, if what == "stderr" { &g.4 } else { &g.3 }, if what == "stderr" { &first.4 } else { &first.3 }), json!({"transport": true, "script": scripts[si], "variant": variants[g.0].3, "args": variants[g.0].1, "stdin": String::from_utf8_lossy(&variants[g.0].2), "reference_variant": variants[first.0].3}));
            } else {
                acc.nontrivial();
                acc.gate("transport-variants-agree");
            }
        }
    }

    // (e2) amounts: scripts of hundreds and thousands of commands through each transport
    {
        let mut longs: Vec<(usize, &'static str, Vec<String>, Vec<u8>)> = Vec::new();
        for n in [300usize, 5000, 20000] {
            let cmds: Vec<String> = (1..=n).map(|i| format!("move r1 #{i}")).chain(["print r1".to_string()]).collect();
            let base = vec!["debug".to_string(), "t.asm".into(), "--minimal".into(), "-f".into(), "stack".into()];
            if n <= 5000 {
                let mut a = base.clone();
                a.extend(["--command".to_string(), cmds.join(";")]);
                longs.push((n, "command-semicolons", a, Vec::new()));
                let mut a = base.clone();
                a.extend(["--command".to_string(), cmds.join("\n")]);
                longs.push((n, "command-newlines", a, Vec::new()));
                let mut a = base.clone();
                a.extend(["--command".to_string(), cmds[..n / 2].join(";")]);
                longs.push((n, "half-command-half-stdin", a, cmds[n / 2..].join("\n").into_bytes()));
            }
            longs.push((n, "stdin-newlines", base.clone(), (cmds.join("\n") + "\n").into_bytes()));
            longs.push((n, "stdin-one-line", base.clone(), cmds.join(";").into_bytes()));
        }
        let runs = pooled(None, longs.len(), 1, Runs::default, |r: &mut Runs, i| {
            let (n, _, args, input) = &longs[i];
            let a: Vec<&str> = args.iter().map(|s| s.as_str()).collect();
            let run = lace.run_timeout(&a, input, &[], None, 120);
            r.0.push((i, *n, run.status, run.out(), run.err()));
        });
        let mut all: Vec<(usize, usize, i32, String, String)> = runs.into_iter().flat_map(|r| r.0).collect();
        all.sort_by_key(|r| r.0);
        for n in [300usize, 5000, 20000] {
            let group: Vec<&(usize, usize, i32, String, String)> = all.iter().filter(|r| r.1 == n).collect();
            let Some(first) = group.first() else { continue };
            for g in &group {
                acc.eval("e2/long-scripts");
                let how = longs[g.0].1;
                let case = json!({"long_script": true, "commands": n, "transport": how});
                let want = format!("x{:04x}", n as u16);
                if g.2 == 101 || g.2 >= 1000 {
                    acc.violation("C14/long-script/crash", format!("script of {n} commands through {how}: exit status {}", g.2), case);
                } else if !g.3.lines().chain(g.4.lines()).any(|l| l.trim() == want) {
                    acc.violation("C14/long-script/last-command-without-effect", format!("script of {n} `move r1` commands and `print r1` through {how}: {want} is not printed (exit status {}, last lines {:?})", g.2, g.4.lines().rev().take(3).collect::<Vec<_>>()), case);
                } else if g.2 != first.2 || g.3 != first.3 || g.4 != first.4 {
                    let what = if g.2 != first.2 { "exit-status" } else if g.3 != first.3 { "stdout" } else { "stderr" };
                    acc.violation(format!("C14/long-script/{what}-differs"), format!("script of {n} commands: {how} differs from {} in {what}", longs[first.0].1), case);
                } else {
                    acc.nontrivial();
                    acc.gate("long-scripts-agree");
                }
            }
        }
    }

    // labelled sampling supplement: longer random strings with multi-byte characters (not part of the exhaustive claim)
    let mut x = ctx.seed.wrapping_mul(6364136223846793005).wrapping_add(1442695040888963407);
    let pool: Vec<char> = SIGMA.iter().copied().chain(['𝄞', ' ', 'L', 'R', 'X', '.', '@']).collect();
    let mut sampled = 0;
    for _ in 0..ctx.tier.pick(20_000, 200_000) {
        let mut tok = String::new();
        x = x.wrapping_mul(6364136223846793005).wrapping_add(1442695040888963407);
        let len = 7 + (x >> 60) as usize;
        for _ in 0..len {
            x = x.wrapping_mul(6364136223846793005).wrapping_add(1442695040888963407);
            tok.push(pool[(x >> 33) as usize % pool.len()]);
        }
        if tok.contains(' ') {
            continue;
        }
        sampled += 1;
        for c in 0..6 {
            if let Err((sig, what)) = judge_parse(c, &tok) {
                acc.violation(format!("C14/{sig}"), what, json!({"line": line(c, &tok), "context": c, "token": tok, "from": "random supplement"}));
            }
        }
    }

    finish(
        ctx,
        acc,
        Level { category: "model_checking", bfs: None },
        "bounded-exhaustive enumeration: (a) every string of length 1..=5 (quick) / 6 (thorough) over the 19-character alphabet {+ - # x o b 0 1 7 9 a f g ^ r _ é ı Ų} in each of six argument positions (integer value, step count, location of print / move, address of goto / break add), (a2) every non-control character of the Basic Multilingual Plane (thorough: planes 0-3; the argument separator space and the command separator `;` excepted) at 14 places of a token ({c}, 1{c}, {c}1, x{c}f, x1{c}, r{c}, r0{c}, {c}0, lab{c}, {c}lab, ^{c}, ^1{c}, #{c}5, lab+{c}) in the same six positions, parsed by the real command parser and by the reference recogniser of the documented grammar: same acceptance and, when accepted, the same command with the same values (Debug rendering); (b) every value 0..65535 and -1..-32768 in every documented spelling (sign before or after the prefix, optional leading zero, 4 radices, letter case, leading zeros) as integer, as address and as PC offset, plus the i32 boundary and the values MAX/radix (+1) in each radix, bare and followed by label characters or an offset, and tokens of 250-260 and 510-514 digits; (c) every name documented in help.txt in three letter cases, every such name with each of its letters replaced by each non-ASCII character of the Basic Multilingual Plane (rejected), every name glued to a rest by a white-space character other than the space (rejected), and every word of <= 3 letters with four argument shapes (totality, case-insensitivity); (d) every token of length <= 3 (thorough 4, stride 5) through the real debugger (`move r1 T`, `goto T`, `break add T`) against the reference debugger: accepted tokens have exactly the documented effect, rejected ones none; (e) 21 scripts (incl. blank-but-not-empty segments and 2-, 3- and 4-byte characters) x every split point between --command and stdin x ';'/newline per gap x trailing separator through the real binary: identical exit status, stdout and stderr; (e2) scripts of 300, 5000 and 20000 `move r1 #i` commands and a final `print r1` through five transports (--command with `;` / with newlines, half and half, stdin lines, stdin one line): the last value is printed, and all transports agree. A seeded random supplement of longer strings with multi-byte characters is run and reported separately (sampling, not part of the exhaustive claim). non-trivial = accepted-and-equal parses + agreeing sessions / variants",
        true,
        &["strings-enumerated", "transport-variants-agree", "characters-swept", "long-scripts-agree", "names-swept"],
        &["reference grammar = refmodel::cmdlang, validated against the repository's own parser tests by `lacemc selftest`", "negative step counts are not judged (help.txt says Integer, a code comment says non-positive means 1, the code casts to u16)"],
        json!({"max_len": max_len, "random_supplement_tokens": sampled, "transport_variants": variants.len()}),
    )
}

#[derive(Default)]
struct Runs(Vec<(usize, usize, i32, String, String)>);

impl crate::isolate::Wire for Runs {
    fn to_value(&self) -> Value {
        json!(self.0.iter().map(|r| json!([r.0, r.1, r.2, r.3, r.4])).collect::<Vec<_>>())
    }
    fn from_value(v: &Value) -> Runs {
        Runs(v.as_array().map(|a| a.iter().map(|r| (r[0].as_u64().unwrap() as usize, r[1].as_u64().unwrap() as usize, r[2].as_i64().unwrap() as i32, r[3].as_str().unwrap().to_string(), r[4].as_str().unwrap().to_string())).collect()).unwrap_or_default())
    }
}

fn to_loc(l: &RLoc) -> Loc {
    match l {
        RLoc::Address(a) => Loc::Abs(*a),
        RLoc::PcOffset(o) => Loc::PcOff(*o as i32),
        RLoc::Label(n, o) => Loc::Label(n.clone(), *o as i32),
        RLoc::Register(_) => unreachable!(),
    }
}

pub fn replay(ctx: &Ctx, case: &Value) -> Option<Option<String>> {
    if case["transport"].as_bool() == Some(true) {
        let prog = &programs()[0];
        let lace = Lace::new(&ctx.lace_bin, &ctx.scratch);
        lace.write("t.asm", prog.text.as_bytes());
        let args: Vec<String> = case["args"].as_array()?.iter().map(|v| v.as_str().unwrap().to_string()).collect();
        let a: Vec<&str> = args.iter().map(|s| s.as_str()).collect();
        let run = lace.run(&a, case["stdin"].as_str()?.as_bytes());
        // reference variant: whole script in --command separated by ';'
        let script: Vec<String> = case["script"].as_array()?.iter().map(|v| v.as_str().unwrap().to_string()).collect();
        let base = lace.run(&["debug", "t.asm", "--minimal", "-f", "stack", "--command", &script.join(";")], b"");
        return Some(if run.status != base.status || run.out() != base.out() || run.err() != base.err() { Some("differs from the all-in---command variant".into()) } else { None });
    }
    if case["effect"].as_bool() == Some(true) {
        return Some(Some("replay through `bin/check C14 quick` (effect cases are regenerated)".into()));
    }
    let text = case["line"].as_str()?;
    if let (Some(c), Some(tok)) = (case["context"].as_u64(), case["token"].as_str()) {
        return Some(judge_parse(c as usize, tok).err().map(|(s, w)| format!("{s}: {w}")));
    }
    Some(match guard(|| verif_parse_command(text)) {
        Err(s) => Some(s.short()),
        Ok(r) => Some(format!("parses to {r:?}")),
    })
}
