//! C01 — the assembled image is the ISA encoding of the source.

use super::asmcommon::*;
use crate::gen::programs::*;
use crate::isolate::{confirm_fresh, pooled_by_flag};
use crate::refmodel::asm::*;
use crate::report::{finish, Acc, Ctx, Level, Tier};
use serde_json::{json, Value};

pub fn layouts() -> Vec<Layout> {
    let mut v = Vec::new();
    for case in [Case::Lower, Case::Upper, Case::Mixed] {
        for sep in [" ", ",", ", ", "\t", " , "] {
            for colon in [false, true] {
                for label_own_line in [false, true] {
                    for comment in 0..3u8 {
                        for blank_lines in [false, true] {
                            for end in 0..3u8 {
                                for indent in ["", "    "] {
                                    v.push(Layout { case, sep, colon, label_own_line, comment, blank_lines, end, indent, one_line: false, trailing_sep: blank_lines && colon });
                                }
                            }
                        }
                    }
                    for end in 0..2u8 {
                        v.push(Layout { case, sep, colon, label_own_line, comment: 0, blank_lines: false, end, indent: "", one_line: true, trailing_sep: end == 1 });
                    }
                }
            }
        }
    }
    v
}

pub struct Work {
    pub space: &'static str,
    pub prog: Program,
    pub stack: bool,
    pub layout: Layout,
}

pub fn workload(tier: Tier) -> Vec<Work> {
    let mut w: Vec<Work> = Vec::new();
    let plain = |c: PCase| Work { space: c.space, prog: c.prog, stack: c.stack, layout: Layout::PLAIN };
    w.extend(e1_single_statements(tier == Tier::Thorough).into_iter().map(plain));
    for n in 1..=tier.pick(4, 7) {
        w.extend(e2_single_reference(n).into_iter().map(plain));
    }
    for n in 2..=tier.pick(3, 6) {
        w.extend(e2_two_references(n).into_iter().map(plain));
    }
    // E3: far labels at the in-range extremes
    for kind in REF_KINDS {
        let b = kind.bits();
        let lo = -(1i64 << (b - 1));
        let hi = (1i64 << (b - 1)) - 1;
        for off in [lo, lo + 1, -2, -1, 0, 1, hi - 1, hi] {
            if let Some(prog) = far_label(kind, off) {
                w.push(Work { space: "E3/far-label", prog, stack: kind == RefKind::Call, layout: Layout::PLAIN });
            }
        }
    }
    // E4: origins, directive first / middle / last
    let stride = tier.pick(1, 1);
    let mut o: u32 = 0;
    while o <= 0xFFFF {
        for pos in 0..3 {
            for lit in [Lit::hex(o as u16), Lit::dec(o as i32)] {
                if pos != 0 && o % 16 != 0 && tier == Tier::Quick {
                    continue;
                }
                let mut prog = Program::default();
                if pos == 0 {
                    prog.items.push(Item::Orig(lit.clone()));
                }
                prog.push(Some("a"), Stmt::Mem(PcRel::Lea, 0, Target::Label("b".into())));
                if pos == 1 {
                    prog.items.push(Item::Orig(lit.clone()));
                }
                prog.push(Some("b"), Stmt::Fill(Lit::hex(0x1234)));
                if pos == 2 {
                    prog.items.push(Item::Orig(lit.clone()));
                }
                w.push(Work { space: "E4/origin", prog, stack: false, layout: Layout::PLAIN });
            }
        }
        o += stride;
    }
    // E6: `.stringz` escape handling: every sequence of up to 3 (thorough 4) raw pieces over
    // escaped backslash, each documented escape, an unknown escape, and the letters that follow a
    // backslash in escapes (so that `\\n` = backslash + 'n' is distinguished from `\n`)
    let pieces = ["\\\\", "\\n", "\\t", "\\r", "\\\"", "\\q", "n", "t", "r", "a", " "];
    for len in 1..=tier.pick(3, 5) {
        for idx in 0..crate::util::pow(pieces.len(), len) {
            let raw: String = crate::util::seq(idx, pieces.len(), len).iter().map(|i| pieces[*i]).collect();
            let mut prog = Program::default();
            prog.push(Some("s"), Stmt::Stringz(raw));
            prog.push(None, Stmt::Fill(Lit::hex(0xBEEF)));
            w.push(Work { space: "E6/stringz-escapes", prog, stack: false, layout: Layout::PLAIN });
        }
    }
    // E7: label spellings next to the lexer's other token classes (hex-like, register-like,
    // keyword-prefixed, digit-first): defined and used before and after, with each PC-relative kind
    for name in label_names() {
        // defined but never used: the label must not turn into a statement of its own
        for stmt in [Stmt::Named(0x25, "halt"), Stmt::Add(1, 2, Src2::Reg(3)), Stmt::Fill(Lit::hex(0x1234)), Stmt::Ret] {
            let mut prog = Program::default();
            prog.push(None, Stmt::Not(1, 1));
            prog.push(Some(name), stmt);
            prog.push(None, Stmt::Named(0x25, "halt"));
            w.push(Work { space: "E7/label-spellings", prog, stack: false, layout: Layout::PLAIN });
        }
        for (k, kind) in REF_KINDS.iter().enumerate() {
            if *kind == RefKind::Call {
                continue;
            }
            for fwd in [false, true] {
                let mut prog = Program::default();
                if fwd {
                    prog.push(None, kind.stmt(name, k));
                    prog.push(None, Stmt::Not(1, 1));
                    prog.push(Some(name), Stmt::Named(0x25, "halt"));
                } else {
                    prog.push(Some(name), Stmt::Named(0x25, "halt"));
                    prog.push(None, Stmt::Not(1, 1));
                    prog.push(None, kind.stmt(name, k));
                }
                for lay in [Layout::PLAIN, Layout { colon: true, case: Case::Upper, ..Layout::PLAIN }] {
                    w.push(Work { space: "E7/label-spellings", prog: prog.clone(), stack: false, layout: lay });
                }
            }
        }
    }
    // E5: layout product over the seeds
    let lays = layouts();
    for (prog, stack) in seeds() {
        for lay in &lays {
            w.push(Work { space: "E5/layout", prog: prog.clone(), stack, layout: *lay });
        }
    }
    w
}

pub fn run(ctx: &Ctx) -> i32 {
    let work = workload(ctx.tier);
    let parts = pooled_by_flag(work.len(), 64, |i| work[i].stack, Acc::new, |acc, i| {
        let wk = &work[i];
        let text = print(&wk.prog, &wk.layout).text;
        acc.eval(wk.space);
        let mut verdict = compare(&wk.prog, &text, wk.stack);
        if !matches!(verdict, Verdict::AgreeOk | Verdict::AgreeReject(..) | Verdict::NotJudged(_)) {
            // only a run on a fresh OS thread decides
            verdict = confirm_fresh(|| compare(&wk.prog, &text, wk.stack));
        }
        match verdict {
            Verdict::AgreeOk => {
                acc.nontrivial();
                let kind = wk.prog.items.iter().find_map(|it| match it { Item::Stmt { stmt, .. } => Some(stmt_kind(stmt)), _ => None }).unwrap_or("empty");
                acc.outcome(format!("ok/{}/{}", wk.space, kind));
                acc.gate("accepted-image-equal");
                if i % 9973 == 0 {
                    acc.sample(format!("{i}"), json!({"space": wk.space, "source": text, "image": encode(&wk.prog, wk.stack).map(|im| im.raw().iter().take(12).map(|w| format!("x{w:04X}")).collect::<Vec<_>>()).unwrap_or_default()}));
                }
            }
            Verdict::ImageDiffers { what, sig } => {
                acc.outcome(format!("violation:{sig}"));
                acc.violation(format!("C01/{sig}"), what, case_json(&wk.prog, &text, wk.stack));
            }
            Verdict::AgreeReject(..) => acc.outcome("rejected-by-both (counted, subject of C04)"),
            Verdict::AcceptsInvalid { .. } => acc.skip("accepted although the reference rejects: subject of C04"),
            Verdict::RejectsValid { .. } => acc.skip("rejected although the reference accepts: subject of C04"),
            Verdict::Panic(_) => acc.skip("assembler panicked: subject of C04/C05"),
            Verdict::NotJudged(why) => acc.skip(why),
        }
    });
    let acc = Acc::merge_all(parts);
    finish(
        ctx,
        acc,
        Level { category: "model_checking", bfs: None },
        "bounded-exhaustive enumeration of structured programs (E1 every operand value of every statement form in every literal spelling; E2 every label placement incl. on the referencing statement, with all filler combinations, and pairs of references; E3 extreme in-range label distances; E4 all origins; E5 layout product over 10 seed programs), printed to text, assembled by the real assembler on a fresh thread and compared word-for-word with the reference ISA encoder; non-trivial = accepted by both with equal image (each case is a distinct text)",
        true,
        &["accepted-image-equal"],
        &["reference encoder (refmodel::asm) is the ISA; literals denote 16-bit words (pinned by the repository's lexer tests)"],
        json!({"layouts": layouts().len()}),
    )
}

pub fn replay(_ctx: &Ctx, case: &Value) -> Option<Option<String>> {
    replay_source(case)
}
