//! Shared by C01 / C04 / C17 / C18: assemble the printed text of an AST with the real assembler and
//! compare with the reference encoder.

use crate::isolate::{Env, Stopped};
use crate::refmodel::asm::*;
use crate::session::{assemble, Asm, AsmErr, AsmOk};
use serde_json::{json, Value};

#[derive(Debug)]
pub enum Verdict {
    /// both accept, images equal
    AgreeOk,
    /// both reject
    AgreeReject(Reject, AsmErr),
    /// both accept, image differs
    ImageDiffers { what: String, sig: String },
    AcceptsInvalid { reject: Reject, got: AsmOk },
    RejectsValid { err: AsmErr },
    Panic(Stopped),
    NotJudged(&'static str),
}

pub fn stmt_kind(s: &Stmt) -> &'static str {
    match s {
        Stmt::Add(_, _, Src2::Reg(_)) => "add-reg",
        Stmt::Add(_, _, Src2::Imm(_)) => "add-imm",
        Stmt::And(_, _, Src2::Reg(_)) => "and-reg",
        Stmt::And(_, _, Src2::Imm(_)) => "and-imm",
        Stmt::Not(..) => "not",
        Stmt::Br(_, _, Target::Label(_)) => "br-label",
        Stmt::Br(_, _, Target::Lit(_)) => "br-lit",
        Stmt::Jmp(_) => "jmp",
        Stmt::Jsr(Target::Label(_)) => "jsr-label",
        Stmt::Jsr(Target::Lit(_)) => "jsr-lit",
        Stmt::Jsrr(_) => "jsrr",
        Stmt::Mem(k, _, t) => match (k, t) {
            (PcRel::Ld, Target::Label(_)) => "ld-label",
            (PcRel::Ldi, Target::Label(_)) => "ldi-label",
            (PcRel::Lea, Target::Label(_)) => "lea-label",
            (PcRel::St, Target::Label(_)) => "st-label",
            (PcRel::Sti, Target::Label(_)) => "sti-label",
            (PcRel::Ld, _) => "ld-lit",
            (PcRel::Ldi, _) => "ldi-lit",
            (PcRel::Lea, _) => "lea-lit",
            (PcRel::St, _) => "st-lit",
            (PcRel::Sti, _) => "sti-lit",
        },
        Stmt::Ldr(..) => "ldr",
        Stmt::Str(..) => "str",
        Stmt::Ret => "ret",
        Stmt::Rti => "rti",
        Stmt::Trap(_) => "trap",
        Stmt::Named(..) => "named-trap",
        Stmt::Push(_) => "push",
        Stmt::Pop(_) => "pop",
        Stmt::Call(Target::Label(_)) => "call-label",
        Stmt::Call(Target::Lit(_)) => "call-lit",
        Stmt::Rets => "rets",
        Stmt::Fill(_) => "fill",
        Stmt::Blkw(_) => "blkw",
        Stmt::Stringz(_) => "stringz",
    }
}

/// The numeric literal operand of a statement, if it has one.
pub fn stmt_lit(s: &Stmt) -> Option<&Lit> {
    match s {
        Stmt::Add(_, _, Src2::Imm(l)) | Stmt::And(_, _, Src2::Imm(l)) => Some(l),
        Stmt::Br(_, _, Target::Lit(l)) | Stmt::Jsr(Target::Lit(l)) | Stmt::Call(Target::Lit(l)) | Stmt::Mem(_, _, Target::Lit(l)) => Some(l),
        Stmt::Ldr(_, _, l) | Stmt::Str(_, _, l) | Stmt::Trap(l) | Stmt::Fill(l) | Stmt::Blkw(l) => Some(l),
        _ => None,
    }
}

fn lit_class(l: &Lit) -> &'static str {
    if l.word == 0 {
        "zero"
    } else if l.word >= 0x8000 {
        "neg-or-high"
    } else {
        "pos"
    }
}

fn fields_differing(a: u16, b: u16) -> String {
    let x = a ^ b;
    let mut v = Vec::new();
    if x & 0xF000 != 0 {
        v.push("15:12");
    }
    if x & 0x0E00 != 0 {
        v.push("11:9");
    }
    if x & 0x01C0 != 0 {
        v.push("8:6");
    }
    if x & 0x003F != 0 {
        v.push("5:0");
    }
    v.join("+")
}

pub fn reject_class(r: &Reject) -> String {
    match r {
        Reject::OperandRange { what, .. } => format!("operand-range:{}", what.replace(' ', "-")),
        Reject::LabelTooFar { .. } => "label-too-far".into(),
        Reject::LabelWraps { .. } => "label-wraps".into(),
        Reject::UndefinedLabel { .. } => "undefined-label".into(),
        Reject::DuplicateLabel { .. } => "duplicate-label".into(),
        Reject::OrigTwice { .. } => "orig-twice".into(),
        Reject::StackFeature { .. } => "stack-feature".into(),
        Reject::TooLong => "too-long".into(),
    }
}

pub fn reject_item(r: &Reject) -> Option<usize> {
    match r {
        Reject::OperandRange { item, .. }
        | Reject::LabelTooFar { item }
        | Reject::LabelWraps { item }
        | Reject::UndefinedLabel { item, .. }
        | Reject::DuplicateLabel { item, .. }
        | Reject::OrigTwice { item }
        | Reject::StackFeature { item } => Some(*item),
        Reject::TooLong => None,
    }
}

pub fn item_kind(p: &Program, i: usize) -> String {
    match &p.items[i] {
        Item::Orig(l) => format!("orig/{}", lit_class(l)),
        Item::Break => "break".into(),
        Item::LBreak(_) => "labelled-break".into(),
        Item::LOrig(..) => "labelled-orig".into(),
        Item::Stmt { stmt, .. } => match stmt_lit(stmt) {
            Some(l) => format!("{}/{}", stmt_kind(stmt), lit_class(l)),
            None => stmt_kind(stmt).to_string(),
        },
    }
}

/// Compare the real assembly of `text` with the reference encoding of `prog`.
pub fn compare(prog: &Program, text: &str, stack: bool) -> Verdict {
    let expect = encode(prog, stack);
    if matches!(expect, Err(Reject::TooLong)) {
        return Verdict::NotJudged("program longer than the address space");
    }
    let got = match assemble(text, Env::new(stack)) {
        Ok(a) => a,
        Err(stopped) => return Verdict::Panic(stopped),
    };
    if matches!(expect, Err(Reject::LabelWraps { .. })) {
        return Verdict::NotJudged("label distance only fits modulo 2^16 (reaches the label through address wrap-around)");
    }
    match (expect, got) {
        (Ok(img), Asm::Ok(ok)) => {
            if ok.orig != img.orig {
                return Verdict::ImageDiffers {
                    what: format!("origin {:?} but the source says {:?}", ok.orig, img.orig),
                    sig: "origin".into(),
                };
            }
            if ok.words.len() != img.words.len() {
                return Verdict::ImageDiffers {
                    what: format!("{} words emitted, {} expected", ok.words.len(), img.words.len()),
                    sig: "length".into(),
                };
            }
            for (k, (a, b)) in ok.words.iter().zip(img.words.iter()).enumerate() {
                if a != b {
                    let item = img.item_of_word[k];
                    return Verdict::ImageDiffers {
                        what: format!("word {k} is x{a:04X}, ISA encoding is x{b:04X} (statement `{}`)", match &prog.items[item] { Item::Stmt { stmt, .. } => stmt_text(stmt, &Layout::PLAIN), _ => String::new() }),
                        sig: format!("word/{}/bits-{}", item_kind(prog, item), fields_differing(*a, *b)),
                    };
                }
            }
            let mut breaks = ok.breaks.clone();
            breaks.sort();
            breaks.dedup();
            let mut expect_breaks = img.breaks.clone();
            expect_breaks.sort();
            expect_breaks.dedup();
            if breaks != expect_breaks {
                return Verdict::ImageDiffers { what: format!("breakpoints {:?} expected {:?}", ok.breaks, img.breaks), sig: "breakpoints".into() };
            }
            Verdict::AgreeOk
        }
        (Err(r), Asm::Err(e)) => Verdict::AgreeReject(r, e),
        (Ok(_), Asm::Err(err)) => Verdict::RejectsValid { err },
        (Err(reject), Asm::Ok(got)) => Verdict::AcceptsInvalid { reject, got },
    }
}

pub fn case_json(prog: &Program, text: &str, stack: bool) -> Value {
    json!({
        "source": text,
        "stack_feature": stack,
        "reference": match encode(prog, stack) {
            Ok(img) => json!({"accept": true, "orig": img.orig, "words": img.words.iter().map(|w| format!("x{w:04X}")).collect::<Vec<_>>().iter().take(64).cloned().collect::<Vec<_>>()}),
            Err(r) => json!({"accept": false, "reason": format!("{r:?}")}),
        },
        "observed": match assemble(text, Env::new(stack)) {
            Ok(Asm::Ok(ok)) => json!({"accept": true, "orig": ok.orig, "words": ok.words.iter().take(64).map(|w| format!("x{w:04X}")).collect::<Vec<_>>()}),
            Ok(Asm::Err(e)) => json!({"accept": false, "stage": e.stage, "code": e.code, "message": e.message}),
            Err(s) => json!({"panic": s.short()}),
        },
    })
}

/// Replay helper: a source text with the expected words/acceptance recorded in the case.
pub fn replay_source(case: &Value) -> Option<Option<String>> {
    let src = case["source"].as_str()?;
    let stack = case["stack_feature"].as_bool().unwrap_or(false);
    let expect_accept = case["reference"]["accept"].as_bool()?;
    let got = assemble(src, Env::new(stack));
    Some(match got {
        Err(s) => Some(format!("assembler stopped: {}", s.short())),
        Ok(Asm::Ok(ok)) => {
            if !expect_accept {
                Some(format!("accepted, reference rejects: {}", case["reference"]["reason"]))
            } else {
                let words: Vec<String> = ok.words.iter().take(64).map(|w| format!("x{w:04X}")).collect();
                let expect: Vec<String> = case["reference"]["words"].as_array().map(|a| a.iter().map(|v| v.as_str().unwrap_or("").to_string()).collect()).unwrap_or_default();
                let expect_orig = case["reference"]["orig"].as_u64().map(|v| v as u16);
                if words != expect || ok.orig != expect_orig {
                    Some(format!("image {:?} orig {:?}, reference {:?} orig {:?}", words, ok.orig, expect, expect_orig))
                } else {
                    None
                }
            }
        }
        Ok(Asm::Err(e)) => {
            if expect_accept {
                Some(format!("rejected ({}: {}), reference accepts", e.stage, e.message))
            } else {
                None
            }
        }
    })
}
