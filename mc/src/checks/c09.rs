//! C09 — the debugger is transparent to the program.

use super::dbgcommon::*;
use crate::bfs::{self, St};
use crate::cli::Lace;
use crate::isolate::{pooled, Env};
use crate::refmodel::asm::*;
use crate::refmodel::dbg::{Cmd, Loc};
use crate::report::{finish, Acc, Ctx, Level};
use crate::session::{machine_diff, machine_diff_kind, session, Ended, Obs, SessionResult};
use serde_json::{json, Value};

pub fn programs09() -> Vec<Prog> {
    let mut v = programs();
    // self-modifying, prints
    let mut p = Program::default();
    p.push(Some("first"), Stmt::Mem(PcRel::Ld, 0, lbl("patch")));
    p.push(None, Stmt::Mem(PcRel::St, 0, lbl("slot")));
    p.push(Some("slot"), Stmt::Add(3, 3, Src2::Imm(Lit::dec(1))));
    p.push(None, Stmt::Add(0, 3, Src2::Imm(Lit::dec(0))));
    p.push(Some("loop"), Stmt::Named(0x26, "putn"));
    p.push(Some("end"), Stmt::Named(0x25, "halt"));
    p.push(Some("patch"), Stmt::Fill(Lit::hex(0x16E7)));
    v.push(Prog::new("self-modifying", p, true));
    // a HALT word in the image that the program replaces by an ordinary instruction before
    // control reaches it
    let mut p = Program::default();
    p.push(Some("first"), Stmt::Mem(PcRel::Ld, 0, lbl("patch")));
    p.push(None, Stmt::Mem(PcRel::St, 0, lbl("slot")));
    p.push(None, Stmt::Add(1, 1, Src2::Imm(Lit::dec(1))));
    p.push(Some("slot"), Stmt::Named(0x25, "halt"));
    p.push(Some("loop"), Stmt::Add(1, 1, Src2::Imm(Lit::dec(1))));
    p.push(Some("end"), Stmt::Named(0x25, "halt"));
    p.push(Some("patch"), Stmt::Fill(Lit::hex(0x1261)));
    v.push(Prog::new("overwrites-placeholder-halt", p, true));
    // .break directives in the source
    let mut p = Program::default();
    p.items.push(Item::Break);
    p.push(Some("first"), Stmt::Add(1, 1, Src2::Imm(Lit::dec(2))));
    p.push(Some("loop"), Stmt::Add(1, 1, Src2::Imm(Lit::dec(-1))));
    p.items.push(Item::Break);
    p.push(None, Stmt::Br(0b001, "brp".into(), lbl("loop")));
    p.push(None, Stmt::Mem(PcRel::Lea, 0, lbl("msg")));
    p.push(None, Stmt::Named(0x22, "puts"));
    p.push(Some("end"), Stmt::Named(0x25, "halt"));
    p.push(Some("msg"), Stmt::Stringz("ok".into()));
    v.push(Prog::new("with-breaks", p, true));
    // runs off its end (implicit HALT)
    let mut p = Program::default();
    p.push(Some("first"), Stmt::Add(1, 1, Src2::Imm(Lit::dec(1))));
    p.push(Some("loop"), Stmt::Add(2, 2, Src2::Imm(Lit::dec(2))));
    v.push(Prog::new("runs-off-its-end", p, true));
    // ends in an exception: jumps below the origin
    let mut p = Program::default();
    p.push(Some("first"), Stmt::Add(0, 0, Src2::Imm(Lit::dec(5))));
    p.push(None, Stmt::Named(0x26, "putn"));
    p.push(Some("loop"), Stmt::And(1, 1, Src2::Imm(Lit::dec(0))));
    p.push(None, Stmt::Jmp(1));
    p.push(Some("end"), Stmt::Named(0x25, "halt"));
    v.push(Prog::new("ends-in-exception", p, true));
    // executes an unknown trap
    let mut p = Program::default();
    p.push(Some("first"), Stmt::Add(0, 0, Src2::Imm(Lit::dec(1))));
    p.push(Some("loop"), Stmt::Trap(Lit::hex(0x30)));
    p.push(Some("end"), Stmt::Named(0x25, "halt"));
    v.push(Prog::new("unknown-trap", p, true));
    // source lines with multi-byte characters, longer than a cell of the breakpoint table (full
    // output mode), in both byte parities
    for (name, text) in [("long-non-ascii-line", "é".repeat(24)), ("long-non-ascii-line-shifted", format!("a{}", "é".repeat(24)))] {
        let mut p = Program::default();
        p.push(Some("first"), Stmt::Mem(PcRel::Lea, 0, lbl("loop")));
        p.push(None, Stmt::Named(0x22, "puts"));
        p.push(Some("end"), Stmt::Named(0x25, "halt"));
        p.push(Some("loop"), Stmt::Stringz(text));
        v.push(Prog::new(name, p, true));
    }
    v
}

pub fn alphabet(prog: &Prog) -> Vec<Action> {
    let first = prog.image.origin();
    let target = if prog.image.labels.iter().any(|(n, _)| n == "loop") { prog.addr_of("loop") } else { first + 1 };
    vec![
        Action::of(Cmd::Step),
        Action::of(Cmd::StepInto(1)),
        Action::of(Cmd::StepInto(3)),
        Action::of(Cmd::StepOut),
        Action::of(Cmd::Continue),
        Action::of(Cmd::BreakAdd(Loc::Abs(target))),
        Action::of(Cmd::BreakRemove(Loc::Abs(target))),
        Action::of(Cmd::BreakAdd(Loc::PcOff(1))),
        // refused: one word below the origin (whatever it leaves behind shows in `break list`)
        Action::of(Cmd::BreakAdd(Loc::Abs(first.wrapping_sub(1)))),
        Action::of(Cmd::BreakList),
        Action::of(Cmd::PrintReg(1)),
        Action::of(Cmd::PrintMem(Loc::PcOff(0))),
        Action::of(Cmd::PrintMem(Loc::Abs(0xFFFF))),
        Action::of(Cmd::Registers),
        Action::of(Cmd::Assembly(Some(Loc::Abs(target)))),
        Action::of(Cmd::Assembly(None)),
        // the word after the last statement (where the loader puts its implicit HALT) and beyond
        Action::of(Cmd::Assembly(Some(Loc::Abs(first + prog.image.words.len() as u16)))),
        Action::of(Cmd::PrintMem(Loc::Abs(first + prog.image.words.len() as u16))),
        Action::of(Cmd::Echo("hello world".into())),
        Action::of(Cmd::Help),
    ]
}

fn plain_run(prog: &Prog, minimal: bool) -> Option<Obs> {
    let mut env = Env::new(prog.stack);
    env.minimal = minimal;
    match session(&prog.text, env, None, SESSION_FUEL) {
        Ok(SessionResult::Ran(o)) => Some(o),
        _ => None,
    }
}

fn transparent(prog: &Prog, actions: &[&Action], tail: Tail, minimal: bool, plain: &Obs) -> Result<(), Mismatch> {
    let o = run_real(prog, actions, tail, minimal).map_err(|(sig, what)| Mismatch { sig: format!("transparent/{sig}"), what })?;
    let how = format!("{tail:?}/{}", if minimal { "minimal" } else { "full" }).to_lowercase();
    let last = actions.last().map(|a| cmd_kind(&a.cmd)).unwrap_or("none");
    if o.ended != plain.ended {
        let kind = match &o.ended {
            Ended::Panic(p) => format!("panic/{}", p.trim_start_matches("panic at ").split(':').take(2).collect::<Vec<_>>().join(":")),
            Ended::Fuel => "does-not-end".into(),
            other => format!("{other:?}").replace(' ', ""),
        };
        return Err(Mismatch { sig: format!("transparent/ends-differently/{kind}/{last}"), what: format!("under the debugger ({how}) the run ended {:?}, without it {:?}", o.ended, plain.ended) });
    }
    if let Some(d) = machine_diff(&o.machine, &plain.machine) {
        return Err(Mismatch { sig: format!("transparent/final-state/{}/{last}", machine_diff_kind(&o.machine, &plain.machine).unwrap_or("?")), what: format!("final machine under the debugger ({how}) differs from the plain run: {d}") });
    }
    if o.out != plain.out {
        return Err(Mismatch { sig: format!("transparent/program-output/{last}"), what: format!("program output under the debugger ({how}) {:?}, plain run {:?}", o.out, plain.out) });
    }
    Ok(())
}

pub fn run(ctx: &Ctx) -> i32 {
    let _ = super::variant::measured();
    let progs = programs09();
    let alphabets: Vec<Vec<Action>> = progs.iter().map(alphabet).collect();
    let depth = ctx.tier.pick(6, 8);
    let thorough = ctx.tier == crate::report::Tier::Thorough;
    // plain runs (real VM, no debugger), in both output modes
    let plains: Vec<(Option<Obs>, Option<Obs>)> = progs.iter().map(|p| (plain_run(p, true), plain_run(p, false))).collect();
    let roots: Vec<St> = (0..progs.len()).map(|i| St { tag: i as u32, hist: vec![], digest: i as u64 }).collect();
    let step = |acc: &mut Acc, s: &St| -> Vec<St> {
        let i = s.tag as usize;
        let prog = &progs[i];
        let alpha = &alphabets[i];
        let mut out = Vec::new();
        let (Some(plain_min), Some(plain_full)) = (&plains[i].0, &plains[i].1) else {
            acc.violation("C09/transparent/plain-run-failed", format!("plain run of {} failed", prog.name), json!({"program": prog.name}));
            return out;
        };
        for ai in 0..alpha.len() {
            let mut hist = s.hist.clone();
            hist.push(ai as u8);
            let actions: Vec<&Action> = hist.iter().map(|k| &alpha[*k as usize]).collect();
            acc.eval("transition");
            let judge = || -> Result<Option<u64>, Mismatch> {
                transparent(prog, &actions, Tail::Quit, true, plain_min)?;
                transparent(prog, &actions, Tail::Eof, true, plain_min)?;
                // the full (non-minimal) output mode: at every state in the thorough tier, up to
                // depth 3 in the quick tier
                if thorough || hist.len() <= 3 {
                    transparent(prog, &actions, Tail::Quit, false, plain_full)?;
                }
                let paused = run_real(prog, &actions, Tail::Exit, true).map_err(|(sig, what)| Mismatch { sig: format!("transparent/{sig}"), what })?;
                Ok(if paused.ended == Ended::Returned { Some(obs_digest(&paused)) } else { None })
            };
            let mut r = judge();
            if r.is_err() {
                r = crate::isolate::confirm_fresh(judge);
            }
            match r {
                Ok(d) => {
                    acc.nontrivial();
                    acc.outcome(format!("{}/{}", prog.name, cmd_kind(&alpha[ai].cmd)));
                    match plain_min.ended {
                        Ended::Returned => acc.gate("program-ends-normally"),
                        Ended::Exit(_) => acc.gate("program-ends-in-error-exit"),
                        _ => {}
                    }
                    if !plain_min.out.is_empty() {
                        acc.gate("program-prints");
                    }
                    if hist.len() <= 2 && ai % 5 == 0 {
                        acc.sample(format!("{i}/{hist:?}"), json!({"program": prog.name, "script": script_of(&actions, Tail::Quit), "plain_end": format!("{:?}", plain_min.ended), "plain_output": plain_min.out}));
                    }
                    if let Some(digest) = d {
                        out.push(St { tag: s.tag, hist, digest });
                    }
                }
                Err(m) => {
                    acc.outcome(format!("violation:{}", m.sig));
                    acc.violation(format!("C09/{}", m.sig), m.what, case_json(prog, "c09", &hist, &actions, Tail::Quit));
                }
            }
        }
        out
    };
    let cfg = bfs::Config { max_depth: depth, dedup: true, state_cap: 2_000_000, wall_cap_s: ctx.tier.pick(40, 1500) };
    let (mut acc, stats) = bfs::explore(roots, &cfg, Some(Env::new(true)), step);

    // The real binary: stdout and exit status of `lace debug --minimal --command ...` vs `lace run --minimal`
    let cli_depth = ctx.tier.pick(3, 3);
    let lace = Lace::new(&ctx.lace_bin, &ctx.scratch);
    let mut cases: Vec<(usize, Vec<u8>)> = Vec::new();
    for (pi, _) in progs.iter().enumerate() {
        let k = alphabets[pi].len();
        for len in 0..=cli_depth {
            for idx in 0..crate::util::pow(k, len) {
                if len == cli_depth && len >= 2 && idx % ctx.tier.pick(6, 1) != 0 {
                    continue;
                }
                cases.push((pi, crate::util::seq(idx, k, len).iter().map(|x| *x as u8).collect()));
            }
        }
    }
    for (pi, p) in progs.iter().enumerate() {
        lace.write(&format!("p{pi}.asm"), p.text.as_bytes());
    }
    let baselines: Vec<crate::cli::Run> = (0..progs.len()).map(|pi| lace.run(&["run", &format!("p{pi}.asm"), "--minimal", "-f", "stack"], b"")).collect();
    let parts = pooled(None, cases.len(), 4, Acc::new, |acc, ci| {
        let (pi, hist) = &cases[ci];
        let prog = &progs[*pi];
        let actions: Vec<&Action> = hist.iter().map(|k| &alphabets[*pi][*k as usize]).collect();
        if crate::cli::too_many_kills() {
            acc.skip("not run: six `lace` subprocesses of this worker already had to be killed (each reported)");
            return;
        }
        acc.eval("cli");
        let base = &baselines[*pi];
        for tail in [Tail::Quit, Tail::Eof] {
            let script = script_of(&actions, tail);
            let file = format!("p{pi}.asm");
            let run = lace.run(&["debug", &file, "--minimal", "-f", "stack", "--command", &script], b"");
            if run.status != base.status {
                acc.violation(format!("C09/cli/exit-status/{}", if run.status == 101 { "panic".to_string() } else { format!("{}-vs-{}", run.status, base.status) }), format!("`lace debug --command '{script}'` exits with {}, `lace run` with {}", run.status, base.status), json!({"cli": true, "program": prog.name, "source": prog.text, "script": script, "history": hist}));
                return;
            }
            if run.out() != base.out() {
                acc.violation("C09/cli/stdout", format!("stdout under `lace debug --command '{script}'` {:?} differs from `lace run` {:?}", run.out(), base.out()), json!({"cli": true, "program": prog.name, "source": prog.text, "script": script, "history": hist}));
                return;
            }
        }
        acc.nontrivial();
        acc.gate(if base.status == 0 { "cli-status-0" } else { "cli-status-nonzero" });
        acc.outcome(format!("cli/{}/status{}", prog.name, base.status));
    });
    for p in parts {
        acc.merge(p);
    }
    // Long executions: no counter inside the debugger may limit how long a program can run.
    // (a) 196 613 instructions with 65 536 unpaired calls; (b, thorough) 2^32 + 229 381 instructions.
    let mut long: Vec<(&str, String, Vec<&str>, u64)> = vec![("65536-linking-jumps", linking_jumps().text, vec!["step;quit", "step", "continue;quit", "step out;step;quit", "step into 60000;step;continue"], 60)];
    // amounts of output: 65 536 characters printed one by one, and one string of 30 000 characters
    long.push(("prints-65536-characters", ".orig x3000\n ld r1, cnt\n ld r0, ch\nloop out\n add r1, r1, #-1\n brnp loop\n halt\ncnt .fill x0\nch .fill x41\n.end\n".to_string(), vec!["continue", "step into 60000;continue;quit", "break add loop;continue;continue;break remove loop;continue"], 60));
    long.push(("prints-a-30000-character-string", format!(".orig x3000\n lea r0, msg\n puts\n halt\nmsg .stringz \"{}\"\n.end\n", "0123456789abcde\\n".repeat(1875)), vec!["continue", "step;step;continue", "step into 2;quit"], 60));
    if thorough {
        long.push(("more-than-2^32-instructions", COUNT_OVERFLOW.to_string(), vec!["continue;quit", "step into 60000;continue"], 1500));
    }
    for (name, text, scripts, timeout) in &long {
        lace.write("long.asm", text.as_bytes());
        let envs = [("LACE_VERIF_FUEL", "9000000000")];
        let base = lace.run_timeout(&["run", "long.asm", "--minimal"], b"", &envs, None, *timeout);
        for script in scripts {
            acc.eval("cli-long");
            let run = lace.run_timeout(&["debug", "long.asm", "--minimal", "--command", script], b"", &envs, None, *timeout);
            if base.timed_out || run.timed_out {
                acc.skip("long-run-timed-out");
                continue;
            }
            let case = json!({"cli_long": true, "program": name, "source": text, "script": script});
            if run.status != base.status {
                acc.violation(format!("C09/cli-long/exit-status/{}", if run.status == 101 { "panic".to_string() } else { format!("{}-vs-{}", run.status, base.status) }), format!("`lace debug --command '{script}'` on {name} exits with {} ({}), `lace run` with {}", run.status, run.err().lines().find(|l| l.contains("panicked")).unwrap_or(""), base.status), case);
            } else if run.out() != base.out() {
                acc.violation("C09/cli-long/stdout", format!("stdout under `lace debug --command '{script}'` on {name} differs from `lace run`"), case);
            } else {
                acc.nontrivial();
                acc.outcome(format!("cli-long/{name}/status{}", base.status));
            }
        }
    }
    finish(
        ctx,
        acc,
        Level { category: "model_checking", bfs: Some((stats.states, stats.transitions, stats.transitions * if thorough { 4 } else { 3 }, stats.max_depth)) },
        "explicit-state BFS over histories of non-mutating commands (step, step into {1,3}, step out, continue, break add/remove absolute and ^1, break list, print register / ^ / xFFFF, registers, assembly, echo, help) on 14 programs (loop, leaving user space through a bare RET / a branch below the origin / a jump to xFFFF, branches, nested JSR/RET, recursive CALL/RETS, HALT in the middle, JSRR + self-branch, self-modifying with output, overwriting a placeholder HALT before reaching it, `.break` in the source with output, running off the end, ending in an exception, executing an unknown trap). Every transition runs history+`quit` and history+end-of-input (also in non-minimal mode: up to depth 3 in the quick tier, everywhere in the thorough tier) on the real debugger and compares how the run ends, the final registers/PC/CC/all memory and the program output with the same image run without a debugger; states deduplicated on the paused product digest. Plus every history up to depth 3 (quick: last level stride 6) through the real binary: exit status and stdout of `lace debug --minimal --command` vs `lace run --minimal`. Plus long executions through the real binary (5 scripts on a subroutine with 65 536 unpaired calls; 3 scripts each on a program printing 65 536 characters one by one and on one printing a string of 30 000 characters; thorough: 2 scripts on a program of 2^32 + 229 381 instructions), which drive the debugger's own counters past their widths. non-trivial = agreeing transitions / CLI histories",
        !stats.capped,
        &["program-ends-normally", "program-ends-in-error-exit", "program-prints", "cli-status-0", "cli-status-nonzero"],
        &["differential oracle: the real VM without debugger", "HALT's own banner is printed with println! and is compared through the CLI part only"],
        json!({"depth": depth, "cli_depth": cli_depth, "states": stats.states, "per_level": stats.per_level, "capped": stats.capped}),
    )
}

/// 1 + 32769 * 131075 + 1 = 4 295 196 677 instructions (more than 2^32), then HALT.
const COUNT_OVERFLOW: &str = ".orig x3000\n ld r1, cnt\nouter and r2, r2, #0\ninner add r2, r2, #-1\n brnp inner\n add r1, r1, #-1\n brnp outer\n halt\ncnt .fill x8001\n.end\n";

pub fn replay(ctx: &Ctx, case: &Value) -> Option<Option<String>> {
    if case["cli_long"].as_bool() == Some(true) {
        let lace = Lace::new(&ctx.lace_bin, &ctx.scratch);
        lace.write("r.asm", case["source"].as_str()?.as_bytes());
        let envs = [("LACE_VERIF_FUEL", "9000000000")];
        let base = lace.run_timeout(&["run", "r.asm", "--minimal"], b"", &envs, None, 1500);
        let run = lace.run_timeout(&["debug", "r.asm", "--minimal", "--command", case["script"].as_str()?], b"", &envs, None, 1500);
        return Some(if run.status != base.status || run.out() != base.out() { Some(format!("status {} vs {}, stdout equal: {}", run.status, base.status, run.out() == base.out())) } else { None });
    }
    let name = case["program"].as_str()?;
    let hist: Vec<u8> = case["history"].as_array()?.iter().map(|v| v.as_u64().unwrap() as u8).collect();
    let progs = programs09();
    let prog = progs.iter().find(|p| p.name == name)?;
    let alpha = alphabet(prog);
    let actions: Vec<&Action> = hist.iter().map(|i| &alpha[*i as usize]).collect();
    if case["cli"].as_bool() == Some(true) {
        let lace = Lace::new(&ctx.lace_bin, &ctx.scratch);
        lace.write("r.asm", prog.text.as_bytes());
        let base = lace.run(&["run", "r.asm", "--minimal", "-f", "stack"], b"");
        let run = lace.run(&["debug", "r.asm", "--minimal", "-f", "stack", "--command", case["script"].as_str()?], b"");
        return Some(if run.status != base.status || run.out() != base.out() { Some(format!("status {} vs {}, stdout equal: {}", run.status, base.status, run.out() == base.out())) } else { None });
    }
    Some(crate::isolate::confirm_fresh(|| {
        let plain = plain_run(prog, true)?;
        for tail in [Tail::Quit, Tail::Eof] {
            if let Err(m) = transparent(prog, &actions, tail, true, &plain) {
                return Some(format!("{}: {}", m.sig, m.what));
            }
        }
        None
    }))
}
