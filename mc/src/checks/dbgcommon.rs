//! Shared by the debugger checks (C09–C13, C15, C16): programs as ASTs, command alphabets, running
//! a command history on the real debugger and on the reference, comparing the paused machines.

use super::variant::measured;
use crate::bfs::St;
use crate::isolate::Env;
use crate::refmodel::asm::*;
use crate::refmodel::dbg::{cmd_text, Cmd, Dbg, Pause};
use crate::session::{machine_diff, machine_diff_kind, machine_digest, session, Ended, Obs, SessionResult};
use serde_json::{json, Value};

pub struct Prog {
    pub name: &'static str,
    pub ast: Program,
    pub text: String,
    pub image: Image,
    pub stack: bool,
}

impl Prog {
    pub fn new(name: &'static str, ast: Program, stack: bool) -> Prog {
        let text = print_plain(&ast);
        let image = encode(&ast, stack).expect("debugger test program must be valid");
        Prog { name, ast, text, image, stack }
    }
    pub fn addr_of(&self, label: &str) -> u16 {
        let off = self.image.labels.iter().find(|(n, _)| n == label).map(|(_, o)| *o).expect("label");
        self.image.origin().wrapping_add(off as u16)
    }
    pub fn reference(&self) -> Dbg {
        Dbg::new(&self.image.raw(), &self.image.breaks, &self.image.labels, self.stack, measured()).expect("loadable")
    }
}

#[derive(Debug, Clone)]
pub struct Action {
    pub text: String,
    pub cmd: Cmd,
}

impl Action {
    pub fn of(cmd: Cmd) -> Action {
        Action { text: cmd_text(&cmd, None), cmd }
    }
    pub fn eval(text: &str, word: Option<u16>) -> Action {
        Action { text: format!("eval {text}"), cmd: Cmd::Eval(word) }
    }
    pub fn spelled(text: &str, cmd: Cmd) -> Action {
        Action { text: text.to_string(), cmd }
    }
}

pub fn lbl(s: &str) -> Target {
    Target::Label(s.to_string())
}

/// The standard program set (all valid with `-f stack`).
pub fn programs() -> Vec<Prog> {
    let mut v = Vec::new();
    // counted loop
    let mut p = Program::default();
    p.push(None, Stmt::And(1, 1, Src2::Imm(Lit::dec(0))));
    p.push(None, Stmt::Add(1, 1, Src2::Imm(Lit::dec(2))));
    p.push(Some("loop"), Stmt::Add(2, 2, Src2::Imm(Lit::dec(1))));
    p.push(None, Stmt::Add(1, 1, Src2::Imm(Lit::dec(-1))));
    p.push(None, Stmt::Br(0b001, "brp".into(), lbl("loop")));
    p.push(Some("end"), Stmt::Named(0x25, "halt"));
    v.push(Prog::new("loop", p, true));
    // taken / untaken, forward / backward branches
    let mut p = Program::default();
    p.push(None, Stmt::Add(0, 0, Src2::Imm(Lit::dec(1))));
    p.push(None, Stmt::Br(0b100, "brn".into(), lbl("skip")));
    p.push(None, Stmt::Br(0b001, "brp".into(), lbl("fwd")));
    p.push(Some("skip"), Stmt::Add(3, 3, Src2::Imm(Lit::dec(1))));
    p.push(Some("back"), Stmt::Add(4, 4, Src2::Imm(Lit::dec(1))));
    p.push(None, Stmt::Br(0b111, "br".into(), lbl("end")));
    p.push(Some("fwd"), Stmt::Add(5, 5, Src2::Imm(Lit::dec(-1))));
    p.push(None, Stmt::Br(0b100, "brn".into(), lbl("back")));
    p.push(Some("end"), Stmt::Named(0x25, "halt"));
    v.push(Prog::new("branches", p, true));
    // nested JSR / RET with R7 saved
    let mut p = Program::default();
    p.push(None, Stmt::Jsr(lbl("f")));
    p.push(Some("after"), Stmt::Add(0, 0, Src2::Imm(Lit::dec(1))));
    p.push(Some("end"), Stmt::Named(0x25, "halt"));
    p.push(Some("f"), Stmt::Add(5, 7, Src2::Imm(Lit::dec(0))));
    p.push(None, Stmt::Jsr(lbl("g")));
    p.push(None, Stmt::Add(7, 5, Src2::Imm(Lit::dec(0))));
    p.push(None, Stmt::Ret);
    p.push(Some("g"), Stmt::Add(1, 1, Src2::Imm(Lit::dec(1))));
    p.push(None, Stmt::Ret);
    v.push(Prog::new("nested-jsr", p, true));
    // recursion through one call site, CALL / RETS
    let mut p = Program::default();
    p.push(None, Stmt::Add(0, 0, Src2::Imm(Lit::dec(2))));
    p.push(None, Stmt::Call(lbl("f")));
    p.push(Some("end"), Stmt::Named(0x25, "halt"));
    p.push(Some("f"), Stmt::Add(0, 0, Src2::Imm(Lit::dec(-1))));
    p.push(None, Stmt::Br(0b110, "brnz".into(), lbl("done")));
    p.push(Some("site"), Stmt::Call(lbl("f")));
    p.push(Some("done"), Stmt::Rets);
    v.push(Prog::new("recursive-call", p, true));
    // HALT in the middle, code after it
    let mut p = Program::default();
    p.push(None, Stmt::Add(0, 0, Src2::Imm(Lit::dec(1))));
    p.push(Some("mid"), Stmt::Named(0x25, "halt"));
    p.push(Some("after"), Stmt::Add(1, 1, Src2::Imm(Lit::dec(1))));
    p.push(None, Stmt::Add(2, 2, Src2::Imm(Lit::dec(1))));
    p.push(Some("end"), Stmt::Named(0x25, "halt"));
    v.push(Prog::new("halt-in-the-middle", p, true));
    // JSRR and a self-branch that ends after two rounds (self-modifying counter in R1)
    let mut p = Program::default();
    p.push(None, Stmt::Mem(PcRel::Lea, 2, lbl("f")));
    p.push(None, Stmt::Jsrr(2));
    p.push(None, Stmt::Add(1, 1, Src2::Imm(Lit::dec(2))));
    p.push(Some("spin"), Stmt::Add(1, 1, Src2::Imm(Lit::dec(-1))));
    p.push(None, Stmt::Br(0b001, "brp".into(), lbl("spin")));
    p.push(Some("end"), Stmt::Named(0x25, "halt"));
    p.push(Some("f"), Stmt::Not(3, 3));
    p.push(None, Stmt::Ret);
    v.push(Prog::new("jsrr", p, true));
    v.push(every_kind());
    v.push(writes_halt_ahead());
    // leaves user space upwards: a main routine ending in a bare RET with R7 still at its initial
    // xFDFF (word there is 0 = a never-taken BR), so PC reaches xFE00
    let mut p = Program::default();
    p.push(None, Stmt::Add(1, 1, Src2::Imm(Lit::dec(3))));
    p.push(Some("loop"), Stmt::Add(1, 1, Src2::Imm(Lit::dec(-1))));
    p.push(None, Stmt::Br(0b001, "brp".into(), lbl("loop")));
    p.push(Some("after"), Stmt::Ret);
    p.push(Some("end"), Stmt::Named(0x25, "halt"));
    v.push(Prog::new("ret-into-top-of-memory", p, true));
    // leaves user space downwards, and jumps to the halt sentinel xFFFF without executing HALT
    let mut p = Program::default();
    p.items.push(Item::Orig(Lit::hex(0x3100)));
    p.push(None, Stmt::Add(1, 1, Src2::Imm(Lit::dec(1))));
    p.push(Some("back"), Stmt::Br(0b001, "brp".into(), Target::Lit(Lit::dec(-3))));
    p.push(Some("end"), Stmt::Named(0x25, "halt"));
    v.push(Prog::new("branch-below-origin", p, true));
    let mut p = Program::default();
    p.push(None, Stmt::Mem(PcRel::Ld, 2, lbl("g")));
    p.push(Some("after"), Stmt::Jmp(2));
    p.push(Some("end"), Stmt::Named(0x25, "halt"));
    p.push(Some("g"), Stmt::Fill(Lit::hex(0xFFFF)));
    v.push(Prog::new("jump-to-xFFFF", p, true));
    v.push(shared_return_address());
    // (new programs go at the end: C14 uses programs()[0])
    // the "skip return" idiom: the inner subroutine returns to the word after the one its caller
    // would continue at, so a step over the inner call never sees PC at the expected return
    // address, and the outer RET is a return without a counted call
    let mut p = Program::default();
    p.push(None, Stmt::Jsr(lbl("f")));
    p.push(None, Stmt::Add(0, 0, Src2::Imm(Lit::dec(1))));
    p.push(Some("end"), Stmt::Named(0x25, "halt"));
    p.push(Some("f"), Stmt::Add(6, 7, Src2::Imm(Lit::dec(0))));
    p.push(Some("site"), Stmt::Jsr(lbl("g")));
    p.push(None, Stmt::Named(0x25, "halt"));
    p.push(Some("after"), Stmt::Add(7, 6, Src2::Imm(Lit::dec(0))));
    p.push(None, Stmt::Ret);
    p.push(Some("g"), Stmt::Add(7, 7, Src2::Imm(Lit::dec(1))));
    p.push(None, Stmt::Ret);
    v.push(Prog::new("skip-return", p, true));
    // a subroutine call in the last word of user space: the return address is xFE00
    let mut p = Program::default();
    p.items.push(Item::Orig(Lit::hex(0xFDFB)));
    p.push(None, Stmt::And(0, 0, Src2::Imm(Lit::dec(0))));
    p.push(None, Stmt::Br(0b111, "brnzp".into(), lbl("site")));
    p.push(Some("f"), Stmt::Add(0, 0, Src2::Imm(Lit::dec(1))));
    p.push(None, Stmt::Ret);
    p.push(Some("site"), Stmt::Jsr(lbl("f")));
    v.push(Prog::new("call-in-last-word-of-user-space", p, true));
    // HALT spelled with the ignored bits 11:8 of a trap word set (xF325): the machine halts on it
    // like on xF025
    let mut p = Program::default();
    p.push(None, Stmt::Add(1, 1, Src2::Imm(Lit::dec(1))));
    p.push(Some("loop"), Stmt::Add(1, 1, Src2::Imm(Lit::dec(1))));
    p.push(Some("site"), Stmt::Fill(Lit::hex(0xF325)));
    p.push(Some("after"), Stmt::Add(1, 1, Src2::Imm(Lit::dec(1))));
    p.push(Some("end"), Stmt::Named(0x25, "halt"));
    v.push(Prog::new("halt-spelled-xF325", p, true));
    v
}

/// Straight-line program with one instruction of every opcode and every output trap (the debugger
/// and the run loop must agree, for each of them, that it is an ordinary instruction to execute).
/// A subroutine that executes JSR 65 536 times as a plain linking jump (the "get PC" idiom) and
/// returns with JMP: calls and returns are not paired, so only crashes, the instruction count
/// and agreement with the reference's own bookkeeping are judged - but any call-depth counter
/// inside the debugger is driven past 2^16.
pub fn linking_jumps() -> Prog {
    let mut p = Program::default();
    p.push(None, Stmt::Jsr(lbl("sub")));
    p.push(Some("after"), Stmt::Named(0x25, "halt"));
    p.push(Some("sub"), Stmt::Add(6, 7, Src2::Imm(Lit::dec(0))));
    p.push(None, Stmt::And(0, 0, Src2::Imm(Lit::dec(0))));
    p.push(Some("loop"), Stmt::Jsr(lbl("next")));
    p.push(Some("next"), Stmt::Add(0, 0, Src2::Imm(Lit::dec(1))));
    p.push(None, Stmt::Br(0b101, "brnp".into(), lbl("loop")));
    p.push(None, Stmt::Jmp(6));
    Prog::new("65536-linking-jumps", p, true)
}

/// JSR/RET recursion with a hand-made stack whose base case *branches* to the instruction after
/// the recursive call: control arrives at the call's return address while outer calls have not
/// returned yet (and once by a branch, not by a return).
pub fn shared_return_address() -> Prog {
    shared_return_address_labelled(None, "after")
}

pub fn shared_return_address_labelled(first: Option<&str>, halt: &str) -> Prog {
    let mut p = Program::default();
    p.push(first, Stmt::Mem(PcRel::Lea, 6, lbl("stack")));
    p.push(None, Stmt::And(0, 0, Src2::Imm(Lit::dec(0))));
    p.push(None, Stmt::Add(0, 0, Src2::Imm(Lit::dec(2))));
    p.push(None, Stmt::Jsr(lbl("f")));
    p.push(Some(halt), Stmt::Named(0x25, "halt"));
    p.push(Some("f"), Stmt::Add(6, 6, Src2::Imm(Lit::dec(-1))));
    p.push(None, Stmt::Str(7, 6, Lit::dec(0)));
    p.push(None, Stmt::Add(0, 0, Src2::Imm(Lit::dec(-1))));
    p.push(None, Stmt::Br(0b100, "brn".into(), lbl("done")));
    p.push(Some("site"), Stmt::Jsr(lbl("f")));
    p.push(Some("done"), Stmt::Ldr(7, 6, Lit::dec(0)));
    p.push(None, Stmt::Add(6, 6, Src2::Imm(Lit::dec(1))));
    p.push(None, Stmt::Ret);
    p.push(None, Stmt::Blkw(Lit::dec(8)));
    p.push(Some("stack"), Stmt::Fill(Lit::hex(0)));
    Prog::new("recursion-with-shared-return-address", p, true)
}

/// CALL/RETS recursion `levels` deep through one call site (for counters of nested calls).
pub fn deep_recursion(levels: u16) -> Prog {
    let mut p = Program::default();
    p.push(None, Stmt::Mem(PcRel::Ld, 0, lbl("levels")));
    p.push(None, Stmt::Call(lbl("count")));
    p.push(Some("after"), Stmt::Named(0x25, "halt"));
    p.push(Some("count"), Stmt::Add(0, 0, Src2::Imm(Lit::dec(-1))));
    p.push(None, Stmt::Br(0b010, "brz".into(), lbl("done")));
    p.push(Some("site"), Stmt::Call(lbl("count")));
    p.push(None, Stmt::Add(1, 1, Src2::Imm(Lit::dec(1))));
    p.push(Some("done"), Stmt::Rets);
    p.push(Some("levels"), Stmt::Fill(Lit::hex(levels)));
    Prog::new("recursion-300-levels", p, true)
}

pub fn every_kind() -> Prog {
    let mut p = Program::default();
    p.push(None, Stmt::Mem(PcRel::Lea, 0, lbl("msg")));
    p.push(None, Stmt::Named(0x22, "puts"));
    p.push(None, Stmt::Named(0x24, "putsp"));
    p.push(Some("loop"), Stmt::Mem(PcRel::Ld, 1, lbl("val")));
    p.push(None, Stmt::Mem(PcRel::Ldi, 2, lbl("ptr")));
    p.push(None, Stmt::Ldr(3, 0, Lit::dec(1)));
    p.push(None, Stmt::Add(4, 1, Src2::Reg(2)));
    p.push(None, Stmt::And(5, 4, Src2::Imm(Lit::dec(15))));
    p.push(None, Stmt::Not(6, 5));
    p.push(Some("after"), Stmt::Named(0x27, "reg"));
    p.push(None, Stmt::Mem(PcRel::St, 4, lbl("val")));
    p.push(None, Stmt::Mem(PcRel::Sti, 5, lbl("ptr")));
    p.push(None, Stmt::Str(6, 0, Lit::dec(2)));
    p.push(None, Stmt::Add(0, 5, Src2::Imm(Lit::dec(0))));
    p.push(None, Stmt::Named(0x26, "putn"));
    p.push(None, Stmt::Named(0x21, "out"));
    p.push(None, Stmt::Trap(Lit::hex(0x27)));
    p.push(None, Stmt::Push(4));
    p.push(None, Stmt::Pop(5));
    p.push(None, Stmt::Br(0b111, "brnzp".into(), lbl("end")));
    p.push(None, Stmt::Add(7, 7, Src2::Imm(Lit::dec(1))));
    p.push(Some("end"), Stmt::Named(0x25, "halt"));
    p.push(Some("msg"), Stmt::Stringz("ab".into()));
    p.push(Some("val"), Stmt::Fill(Lit::hex(0x0041)));
    p.push(Some("ptr"), Stmt::Fill(Lit::hex(0x3017)));
    Prog::new("every-instruction-kind", p, true)
}

/// Self-modifying program that stores a HALT word over an instruction it is about to reach.
pub fn writes_halt_ahead() -> Prog {
    let mut p = Program::default();
    p.push(Some("first"), Stmt::Mem(PcRel::Ld, 0, lbl("haltw")));
    p.push(None, Stmt::Mem(PcRel::St, 0, lbl("loop")));
    p.push(None, Stmt::Add(1, 1, Src2::Imm(Lit::dec(1))));
    p.push(Some("loop"), Stmt::Add(2, 2, Src2::Imm(Lit::dec(1))));
    p.push(Some("after"), Stmt::Add(3, 3, Src2::Imm(Lit::dec(1))));
    p.push(Some("end"), Stmt::Named(0x25, "halt"));
    p.push(Some("haltw"), Stmt::Fill(Lit::hex(0xF025)));
    Prog::new("writes-halt-ahead", p, true)
}

/// How the script ends.
#[derive(Debug, Clone, Copy, PartialEq, Eq)]
pub enum Tail {
    /// `exit`: observe the paused machine
    Exit,
    /// `quit`: detach and run to completion
    Quit,
    /// end of input (behaves as quit)
    Eof,
}

pub fn script_of(actions: &[&Action], tail: Tail) -> String {
    let mut s: Vec<String> = actions.iter().map(|a| a.text.clone()).collect();
    match tail {
        Tail::Exit => s.push("exit".into()),
        Tail::Quit => s.push("quit".into()),
        Tail::Eof => {}
    }
    s.join(";")
}

pub const SESSION_FUEL: u64 = 200_000;

pub fn run_real(prog: &Prog, actions: &[&Action], tail: Tail, minimal: bool) -> Result<Obs, (String, String)> {
    run_real_fuel(prog, actions, tail, minimal, SESSION_FUEL)
}

pub fn run_real_fuel(prog: &Prog, actions: &[&Action], tail: Tail, minimal: bool, fuel: u64) -> Result<Obs, (String, String)> {
    let script = script_of(actions, tail);
    let mut env = Env::new(prog.stack);
    env.minimal = minimal;
    match session(&prog.text, env, Some(&script), fuel) {
        Err(stopped) => Err((format!("panic/{}", stopped.panic_site()), stopped.short())),
        Ok(SessionResult::AsmFailed(e)) => Err(("assembler-rejected-test-program".into(), e.message)),
        Ok(SessionResult::LoadFailed(e)) => Err(("load-failed".into(), e)),
        Ok(SessionResult::Ran(obs)) => Ok(obs),
    }
}

/// Run the reference over the same history. Returns the debugger and the pause of each command.
pub fn run_ref(prog: &Prog, actions: &[&Action]) -> (Dbg, Vec<Pause>) {
    run_ref_fuel(prog, actions, SESSION_FUEL)
}

pub fn run_ref_fuel(prog: &Prog, actions: &[&Action], fuel: u64) -> (Dbg, Vec<Pause>) {
    let mut d = prog.reference();
    let mut budget = fuel / 2;
    let mut pauses = Vec::new();
    for a in actions {
        let p = d.apply(&a.cmd, &mut budget);
        pauses.push(p);
        if matches!(p, Pause::Exit(_) | Pause::Unspecified | Pause::Fuel) {
            break;
        }
    }
    (d, pauses)
}

/// Digest of everything that can influence the future of a paused session.
pub fn obs_digest(obs: &Obs) -> u64 {
    let mut h = machine_digest(&obs.machine);
    if let Some(b) = &obs.breakpoints {
        for (a, pre) in b {
            h = crate::util::mix(h ^ ((*a as u64) << 1) ^ *pre as u64);
        }
    }
    h = crate::util::mix(h ^ match obs.current_breakpoint { Some(Some(a)) => 0x10000 | a as u64, _ => 0 });
    h
}

fn last_resume_kind(actions: &[&Action]) -> String {
    for a in actions.iter().rev() {
        match &a.cmd {
            Cmd::Step => return "step".into(),
            Cmd::StepInto(_) => return "step-into".into(),
            Cmd::StepOut => return "step-out".into(),
            Cmd::Continue => return "continue".into(),
            _ => {}
        }
    }
    "none".into()
}

/// What kind of instruction the last resuming command started on (for signatures).
fn started_on(prog: &Prog, actions: &[&Action]) -> &'static str {
    // replay the reference up to the last resuming command
    let last = actions.iter().rposition(|a| matches!(a.cmd, Cmd::Step | Cmd::StepInto(_) | Cmd::StepOut | Cmd::Continue));
    let Some(last) = last else { return "none" };
    let (d, _) = run_ref(prog, &actions[..last]);
    let w = d.m.mem[d.m.pc as usize];
    if crate::refmodel::dbg::is_call(w) {
        "call"
    } else if crate::refmodel::dbg::is_ret(w) {
        "return"
    } else if w >> 12 == 0 && (w >> 9) & 7 != 0 {
        "branch"
    } else if w >> 12 == 0xC {
        "jump"
    } else if crate::refmodel::dbg::is_halt(w) {
        "halt"
    } else {
        "plain"
    }
}

#[derive(Debug, Clone)]
pub struct Mismatch {
    pub sig: String,
    pub what: String,
}

/// Compare a paused real session (script + `exit`) with the reference after the same commands.
/// `Ok(true)`: agree and expandable; `Ok(false)`: agree but terminal / not judged further.
pub fn compare_paused(prog: &Prog, actions: &[&Action], obs: &Obs, d: &Dbg, pauses: &[Pause]) -> Result<bool, Mismatch> {
    let last_cmd = actions.last().map(|a| cmd_kind(&a.cmd)).unwrap_or("none");
    let ctx = |kind: &str| format!("{kind}/after-{}/on-{}", last_resume_kind(actions), started_on(prog, actions));
    let last_pause = pauses.last().copied().unwrap_or(Pause::Done);
    match last_pause {
        Pause::Unspecified | Pause::Fuel => return Ok(false),
        Pause::Exit(code) => {
            return if obs.ended == Ended::Exit(code) {
                Ok(false)
            } else {
                Err(Mismatch { sig: format!("dbg/process-exit/{last_cmd}"), what: format!("session must end with exit status {code}, but ended {:?}", obs.ended) })
            };
        }
        _ => {}
    }
    match &obs.ended {
        Ended::Returned => {}
        Ended::Fuel => {
            return Err(Mismatch { sig: format!("dbg/{}", ctx("does-not-pause")), what: format!("session used up its step budget ({} loop iterations, {} instructions executed, {} commands read); the reference pauses after {} instructions", obs.counters.ticks, obs.counters.execs, obs.counters.commands, d.total_executed) });
        }
        Ended::Panic(p) => {
            let site = p.trim_start_matches("panic at ").split(':').take(2).collect::<Vec<_>>().join(":");
            return Err(Mismatch { sig: format!("dbg/panic/{site}/{last_cmd}"), what: format!("debugger panicked: {p}") });
        }
        other => {
            return Err(Mismatch { sig: format!("dbg/ended-{other:?}/{last_cmd}").replace(' ', ""), what: format!("session ended {other:?}") });
        }
    }
    // every command of the script and the final `exit` must have been read: a session that ends on
    // its own (instead of pausing) silently drops the rest of the script
    if obs.counters.commands < actions.len() as u64 + 1 {
        return Err(Mismatch { sig: format!("dbg/{}", ctx("session-ended-instead-of-pausing")), what: format!("the session ended after reading {} of {} commands (PC x{:04x}); the debugger must pause and keep reading", obs.counters.commands, actions.len() + 1, obs.machine.pc) });
    }
    if obs.counters.execs != d.total_executed {
        return Err(Mismatch { sig: format!("dbg/{}", ctx("instruction-count")), what: format!("{} instructions executed by the session, the commands promise {} (PC x{:04x}, reference PC x{:04x})", obs.counters.execs, d.total_executed, obs.machine.pc, d.m.pc) });
    }
    if let Some(diff) = machine_diff(&obs.machine, &d.m) {
        let kind = machine_diff_kind(&obs.machine, &d.m).unwrap_or("?");
        return Err(Mismatch { sig: format!("dbg/{}/{last_cmd}", ctx(&format!("state-{kind}"))), what: format!("paused machine differs from the reference: {diff}") });
    }
    if let Some(b) = &obs.breakpoints {
        let addrs: Vec<u16> = b.iter().map(|(a, _)| *a).collect();
        let mut sorted = addrs.clone();
        sorted.sort();
        sorted.dedup();
        if sorted != addrs {
            return Err(Mismatch { sig: "dbg/breakpoints/not-sorted-unique".into(), what: format!("breakpoint list {addrs:04x?} is not sorted and duplicate-free") });
        }
        if addrs != d.breakpoints() {
            return Err(Mismatch { sig: format!("dbg/breakpoints/wrong-set/{last_cmd}"), what: format!("breakpoints {addrs:04x?}, reference {:04x?}", d.breakpoints()) });
        }
    }
    if !d.out_unjudged && !d.out.contains('\x1b') && obs.out != d.out {
        return Err(Mismatch { sig: format!("dbg/program-output/{last_cmd}"), what: format!("program printed {:?}, reference {:?}", obs.out, d.out) });
    }
    Ok(true)
}

pub fn cmd_kind(c: &Cmd) -> &'static str {
    match c {
        Cmd::Step => "step",
        Cmd::StepInto(_) => "step-into",
        Cmd::StepOut => "step-out",
        Cmd::Continue => "continue",
        Cmd::BreakAdd(_) => "break-add",
        Cmd::BreakRemove(_) => "break-remove",
        Cmd::BreakList => "break-list",
        Cmd::Reset => "reset",
        Cmd::MoveReg(..) => "move-reg",
        Cmd::MoveMem(..) => "move-mem",
        Cmd::Goto(_) => "goto",
        Cmd::PrintReg(_) | Cmd::PrintMem(_) => "print",
        Cmd::Registers => "registers",
        Cmd::Assembly(_) => "assembly",
        Cmd::Echo(_) => "echo",
        Cmd::Help => "help",
        Cmd::Eval(_) => "eval",
        Cmd::Quit => "quit",
        Cmd::Exit => "exit",
    }
}

pub fn case_json(prog: &Prog, alphabet_name: &str, hist: &[u8], actions: &[&Action], tail: Tail) -> Value {
    json!({
        "program": prog.name,
        "source": prog.text,
        "stack_feature": prog.stack,
        "alphabet": alphabet_name,
        "history": hist,
        "script": script_of(actions, tail),
    })
}

/// One BFS step for product exploration at command boundaries: for every action, run history+action
/// on both sides and compare. Returns children to expand.
pub fn product_step(
    acc: &mut crate::report::Acc,
    prog_id: usize,
    prog: &Prog,
    alphabet: &[Action],
    alphabet_name: &str,
    s: &St,
    prefix: &str,
    extra: &dyn Fn(&[&Action], &Obs, &Dbg, &[Pause]) -> Option<Mismatch>,
) -> Vec<St> {
    let mut out = Vec::new();
    for (ai, _) in alphabet.iter().enumerate() {
        let mut hist = s.hist.clone();
        hist.push(ai as u8);
        let actions: Vec<&Action> = hist.iter().map(|i| &alphabet[*i as usize]).collect();
        acc.eval("transition");
        let judge = || -> Result<(bool, Obs, Dbg, Vec<Pause>), Mismatch> {
            let obs = run_real(prog, &actions, Tail::Exit, true).map_err(|(sig, what)| Mismatch { sig: format!("dbg/{sig}"), what })?;
            let (d, pauses) = run_ref(prog, &actions);
            let ok = compare_paused(prog, &actions, &obs, &d, &pauses)?;
            if let Some(m) = extra(&actions, &obs, &d, &pauses) {
                return Err(m);
            }
            Ok((ok, obs, d, pauses))
        };
        let mut r = judge();
        if r.is_err() {
            r = crate::isolate::confirm_fresh(judge);
        }
        match r {
            Ok((expand, obs, d, pauses)) => {
                acc.nontrivial();
                let p = pauses.last().copied().unwrap_or(Pause::Done);
                acc.outcome(format!("{}/{}/{:?}", prog.name, cmd_kind(&alphabet[ai].cmd), p).replace(' ', ""));
                match p {
                    Pause::Breakpoint => acc.gate("paused-at-breakpoint"),
                    Pause::Halt => acc.gate("paused-at-halt"),
                    Pause::OutOfUserSpace => acc.gate("paused-outside-user-space"),
                    Pause::Refused => acc.gate("command-refused"),
                    _ => {}
                }
                if matches!(alphabet[ai].cmd, Cmd::Step) && d.last_executed > 1 {
                    acc.gate("stepped-over-subroutine");
                }
                if d.total_executed > prog.image.words.len() as u64 {
                    acc.gate("loop-iteration-repeated");
                }
                if hist.len() <= 2 && ai % 3 == 0 {
                    acc.sample(format!("{prog_id}/{hist:?}"), json!({"program": prog.name, "script": script_of(&actions, Tail::Exit), "paused_pc": format!("x{:04x}", obs.machine.pc), "instructions_executed": obs.counters.execs, "pause": format!("{p:?}")}));
                }
                if expand {
                    out.push(St { tag: s.tag, hist, digest: obs_digest(&obs) });
                }
            }
            Err(m) => {
                acc.outcome(format!("violation:{}", m.sig));
                acc.violation(format!("{prefix}/{}", m.sig), m.what, case_json(prog, alphabet_name, &hist, &actions, Tail::Exit));
            }
        }
    }
    out
}

