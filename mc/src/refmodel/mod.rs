pub mod asm;
pub mod cmdlang;
pub mod dbg;
pub mod editor;
pub mod selftest;
pub mod vm;
