//! Reference LC-3 machine with the documented PUSH/POP/CALL/RETS extension.
//! Written from the ISA (Patt & Patel, appendix A) and lace's README; deliberately table-free and
//! boring. Nothing here is derived from lace's code paths.

pub const USER_END: u16 = 0xFE00;
pub const HALT_PC: u16 = 0xFFFF;
pub const HALT_WORD: u16 = 0xF025;

/// Facets on which editions of the ISA / the README are silent or disagree. They are *measured*
/// once on the implementation (one-step probes, see `checks::probe_variant`) and the reference
/// follows them in multi-step runs; the one-step check (C02) accepts either value.
#[derive(Debug, Clone, Copy, PartialEq, Eq)]
pub struct Variant {
    /// LEA sets the condition codes (2nd edition) or leaves them (3rd edition).
    pub lea_sets_cc: bool,
    /// JSRR: write the link before reading the base register (so `JSRR R7` falls through) or after.
    pub jsrr_link_first: bool,
}

impl Variant {
    pub const ALL: [Variant; 4] = [
        Variant { lea_sets_cc: true, jsrr_link_first: true },
        Variant { lea_sets_cc: true, jsrr_link_first: false },
        Variant { lea_sets_cc: false, jsrr_link_first: true },
        Variant { lea_sets_cc: false, jsrr_link_first: false },
    ];
}

#[derive(Clone, PartialEq, Eq)]
pub struct Machine {
    pub r: [u16; 8],
    pub pc: u16,
    /// 0b100 N, 0b010 Z, 0b001 P, 0 = none set yet
    pub cc: u8,
    pub mem: Box<[u16; 65536]>,
    pub orig: u16,
}

impl std::fmt::Debug for Machine {
    fn fmt(&self, f: &mut std::fmt::Formatter<'_>) -> std::fmt::Result {
        write!(
            f,
            "Machine{{r={:04x?} pc={:04x} cc={:03b} orig={:04x}}}",
            self.r, self.pc, self.cc, self.orig
        )
    }
}

/// How one instruction (or a run) ended.
#[derive(Debug, Clone, Copy, PartialEq, Eq)]
pub enum End {
    /// Instruction completed.
    Ok,
    /// The machine must stop with this process exit status, executing nothing.
    Exit(i32),
    /// RTI: outside every claim.
    Unspecified,
}

pub struct Io<'a> {
    pub input: &'a [u8],
    pub pos: usize,
    /// Program output as Unicode scalars.
    pub out: String,
    /// Set when the output contains something the property does not pin down.
    pub out_unjudged: bool,
}

impl<'a> Io<'a> {
    pub fn new(input: &'a [u8]) -> Io<'a> {
        Io { input, pos: 0, out: String::new(), out_unjudged: false }
    }
}

pub fn sext(w: u16, bits: u32) -> u16 {
    let m = 1u16 << (bits - 1);
    let v = w & ((1u16 << bits) - 1);
    (v ^ m).wrapping_sub(m)
}

fn setcc(m: &mut Machine, v: u16) {
    m.cc = if v == 0 {
        0b010
    } else if v & 0x8000 != 0 {
        0b100
    } else {
        0b001
    };
}

/// REG trap text in `--minimal` mode (pinned by tests/expected/check_every_command).
pub fn reg_dump_minimal(m: &Machine) -> String {
    let mut s = String::new();
    for i in 0..8 {
        s.push_str(&format!("R{} x{:04x}\n", i, m.r[i]));
    }
    s.push_str(&format!("PC x{:04x}\n", m.pc));
    s.push_str(&format!("CC {:03b}\n", m.cc));
    s
}

impl Machine {
    /// Load an image (`words[0]` is the origin). `None` if the loader must reject it.
    pub fn load(image: &[u16]) -> Option<Machine> {
        if image.is_empty() {
            return None;
        }
        let orig = image[0] as usize;
        let n = image.len() - 1;
        if orig + n + 1 > 0x10000 {
            return None;
        }
        let mut mem: Box<[u16; 65536]> = vec![0u16; 65536].into_boxed_slice().try_into().unwrap();
        mem[orig..orig + n].copy_from_slice(&image[1..]);
        mem[orig + n] = HALT_WORD;
        Some(Machine {
            r: [0, 0, 0, 0, 0, 0, 0, 0xFDFF],
            pc: orig as u16,
            cc: 0,
            mem,
            orig: orig as u16,
        })
    }

    pub fn in_user_space(&self, pc: u16) -> bool {
        pc >= self.orig && pc < USER_END
    }

    /// Execute `w`; `self.pc` has already been incremented past the instruction.
    pub fn step(&mut self, w: u16, stack: bool, var: Variant, io: &mut Io) -> End {
        let op = w >> 12;
        let dr = ((w >> 9) & 7) as usize;
        let sr1 = ((w >> 6) & 7) as usize;
        match op {
            0x0 => {
                // BR
                let nzp = ((w >> 9) & 7) as u8;
                if nzp & self.cc != 0 {
                    self.pc = self.pc.wrapping_add(sext(w, 9));
                }
            }
            0x1 | 0x5 => {
                let a = self.r[sr1];
                let b = if w & 0x20 != 0 { sext(w, 5) } else { self.r[(w & 7) as usize] };
                let v = if op == 1 { a.wrapping_add(b) } else { a & b };
                self.r[dr] = v;
                setcc(self, v);
            }
            0x2 => {
                let v = self.mem[self.pc.wrapping_add(sext(w, 9)) as usize];
                self.r[dr] = v;
                setcc(self, v);
            }
            0x3 => {
                let a = self.pc.wrapping_add(sext(w, 9));
                self.mem[a as usize] = self.r[dr];
            }
            0x4 => {
                let link = self.pc;
                if w & 0x800 != 0 {
                    self.pc = self.pc.wrapping_add(sext(w, 11));
                    self.r[7] = link;
                } else if var.jsrr_link_first {
                    self.r[7] = link;
                    self.pc = self.r[sr1];
                } else {
                    self.pc = self.r[sr1];
                    self.r[7] = link;
                }
            }
            0x6 => {
                let a = self.r[sr1].wrapping_add(sext(w, 6));
                let v = self.mem[a as usize];
                self.r[dr] = v;
                setcc(self, v);
            }
            0x7 => {
                let a = self.r[sr1].wrapping_add(sext(w, 6));
                self.mem[a as usize] = self.r[dr];
            }
            0x8 => return End::Unspecified,
            0x9 => {
                let v = !self.r[sr1];
                self.r[dr] = v;
                setcc(self, v);
            }
            0xA => {
                let p = self.mem[self.pc.wrapping_add(sext(w, 9)) as usize];
                let v = self.mem[p as usize];
                self.r[dr] = v;
                setcc(self, v);
            }
            0xB => {
                let p = self.mem[self.pc.wrapping_add(sext(w, 9)) as usize];
                self.mem[p as usize] = self.r[dr];
            }
            0xC => {
                self.pc = self.r[sr1];
            }
            0xD => {
                if !stack {
                    return End::Exit(1);
                }
                let sub = (w >> 10) & 3;
                match sub {
                    0b01 => {
                        // PUSH: value read before the stack pointer moves
                        let v = self.r[sr1];
                        self.r[7] = self.r[7].wrapping_sub(1);
                        self.mem[self.r[7] as usize] = v;
                    }
                    0b00 => {
                        // POP
                        let v = self.mem[self.r[7] as usize];
                        self.r[7] = self.r[7].wrapping_add(1);
                        self.r[sr1] = v;
                    }
                    0b11 => {
                        // CALL
                        self.r[7] = self.r[7].wrapping_sub(1);
                        self.mem[self.r[7] as usize] = self.pc;
                        self.pc = self.pc.wrapping_add(sext(w, 10));
                    }
                    _ => {
                        // RETS
                        let v = self.mem[self.r[7] as usize];
                        self.r[7] = self.r[7].wrapping_add(1);
                        self.pc = v;
                    }
                }
            }
            0xE => {
                let v = self.pc.wrapping_add(sext(w, 9));
                self.r[dr] = v;
                if var.lea_sets_cc {
                    setcc(self, v);
                }
            }
            _ => {
                // TRAP
                match w & 0xFF {
                    0x20 | 0x23 => {
                        if io.pos >= io.input.len() {
                            return End::Exit(1);
                        }
                        let b = io.input[io.pos];
                        io.pos += 1;
                        if b < 0x80 {
                            self.r[0] = b as u16;
                            if w & 0xFF == 0x23 {
                                io.out.push(b as char);
                            }
                        } else {
                            // value of R0 / echo for a non-ASCII byte is not specified
                            self.r[0] = 0xFFFD;
                            io.out_unjudged = true;
                        }
                    }
                    0x21 => {
                        io.out.push((self.r[0] & 0xFF) as u8 as char);
                    }
                    0x22 => {
                        let mut a = self.r[0];
                        loop {
                            let c = self.mem[a as usize];
                            // "Writing terminates with the occurrence of x0000 in a memory
                            // location": a word xNN00 does not end the string. Its character is
                            // NUL, which is judged like PUTSP's padding (dropped on both sides).
                            if c == 0 {
                                break;
                            }
                            if c & 0xFF != 0 {
                                io.out.push((c & 0xFF) as u8 as char);
                            }
                            a = a.wrapping_add(1);
                            if a == self.r[0] {
                                break; // whole memory is non-zero: one lap
                            }
                        }
                    }
                    0x24 => {
                        let mut a = self.r[0];
                        loop {
                            let c = self.mem[a as usize];
                            if c == 0 {
                                break;
                            }
                            // Both bytes of every word before the x0000 terminator are written,
                            // low byte first. Whether a x00 byte (the padding of an odd-length
                            // string) reaches the console is invisible: NULs are dropped here and
                            // from the observed output alike.
                            if c & 0xFF != 0 {
                                io.out.push((c & 0xFF) as u8 as char);
                            }
                            if c >> 8 != 0 {
                                io.out.push((c >> 8) as u8 as char);
                            }
                            a = a.wrapping_add(1);
                            if a == self.r[0] {
                                break;
                            }
                        }
                    }
                    0x25 => {
                        self.pc = HALT_PC;
                    }
                    0x26 => {
                        io.out.push_str(&format!("{}", self.r[0] as i16));
                        if self.r[0] >= 0x8000 {
                            io.out_unjudged = true;
                        }
                    }
                    0x27 => {
                        io.out.push_str(&reg_dump_minimal(self));
                    }
                    _ => return End::Exit(0xEE),
                }
            }
        }
        End::Ok
    }
}

#[derive(Debug, Clone, Copy, PartialEq, Eq)]
pub enum RunEnd {
    /// PC became xFFFF (HALT executed or jumped there): exit 0.
    Normal,
    /// PC left [origin, xFE00): exit xEE.
    OutOfBounds,
    /// Instruction-level stop (unknown trap xEE, stack gate 1, end of input 1).
    Exit(i32),
    Unspecified,
    /// Step budget used up.
    Fuel,
}

pub struct RunResult {
    pub end: RunEnd,
    pub steps: u64,
    /// Addresses instructions were fetched from.
    pub fetched_outside: bool,
}

/// The plain VM loop of the property statement.
pub fn run(m: &mut Machine, stack: bool, var: Variant, io: &mut Io, max_steps: u64) -> RunResult {
    let mut steps = 0;
    loop {
        if m.pc == HALT_PC {
            return RunResult { end: RunEnd::Normal, steps, fetched_outside: false };
        }
        if !m.in_user_space(m.pc) {
            return RunResult { end: RunEnd::OutOfBounds, steps, fetched_outside: false };
        }
        if steps >= max_steps {
            return RunResult { end: RunEnd::Fuel, steps, fetched_outside: false };
        }
        let w = m.mem[m.pc as usize];
        m.pc = m.pc.wrapping_add(1);
        steps += 1;
        match m.step(w, stack, var, io) {
            End::Ok => {}
            End::Exit(c) => return RunResult { end: RunEnd::Exit(c), steps, fetched_outside: false },
            End::Unspecified => return RunResult { end: RunEnd::Unspecified, steps, fetched_outside: false },
        }
    }
}
