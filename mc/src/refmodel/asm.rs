//! Reference assembler over a *structured* program. It never sees text: enumerators build ASTs, the
//! printer turns one AST into many texts, and `encode` says what image the ISA prescribes (or why
//! the program must be rejected).

use std::collections::HashMap;

/// A numeric literal as written. Its meaning is a 16-bit word (pinned by lace's lexer tests: `#65535`
/// and `xFFFF` both denote the word xFFFF).
#[derive(Debug, Clone, PartialEq, Eq)]
pub struct Lit {
    pub text: String,
    pub word: u16,
}

impl Lit {
    pub fn dec(v: i32) -> Lit {
        assert!((-32768..=65535).contains(&v));
        Lit { text: format!("#{v}"), word: v as u16 }
    }
    pub fn hex(w: u16) -> Lit {
        Lit { text: format!("x{w:X}"), word: w }
    }
    pub fn hex_lower(w: u16) -> Lit {
        Lit { text: format!("x{w:x}"), word: w }
    }
    pub fn hex0x(w: u16) -> Lit {
        Lit { text: format!("0x{w:X}"), word: w }
    }
    pub fn hex0x_upper(w: u16) -> Lit {
        Lit { text: format!("0X{w:04x}"), word: w }
    }
    /// `x-H`, magnitude 1..=0x8000
    pub fn hex_neg(mag: u32) -> Lit {
        assert!((1..=0x8000).contains(&mag));
        Lit { text: format!("x-{mag:X}"), word: (mag as u16).wrapping_neg() }
    }
    /// Value in a signed field of `bits` bits, if it fits.
    pub fn signed_fit(&self, bits: u32) -> Option<u16> {
        let v = self.word as i16 as i32;
        let lo = -(1i32 << (bits - 1));
        let hi = (1i32 << (bits - 1)) - 1;
        if v >= lo && v <= hi {
            Some(self.word & ((1u32 << bits) - 1) as u16)
        } else {
            None
        }
    }
    pub fn unsigned_fit(&self, bits: u32) -> Option<u16> {
        if (self.word as u32) < (1u32 << bits) {
            Some(self.word)
        } else {
            None
        }
    }
    /// Every spelling that denotes the same word.
    pub fn spellings(word: u16) -> Vec<Lit> {
        let mut v = vec![Lit::dec(word as i32), Lit::hex(word), Lit::hex_lower(word), Lit::hex0x(word), Lit::hex0x_upper(word)];
        if word >= 0x8000 {
            v.push(Lit::dec(word as i16 as i32));
            v.push(Lit::hex_neg((word as i16 as i32).unsigned_abs()));
        }
        v.dedup_by(|a, b| a.text == b.text);
        v
    }
}

#[derive(Debug, Clone, PartialEq, Eq)]
pub enum Target {
    Label(String),
    Lit(Lit),
}

#[derive(Debug, Clone, PartialEq, Eq)]
pub enum Src2 {
    Reg(u8),
    Imm(Lit),
}

#[derive(Debug, Clone, Copy, PartialEq, Eq, Hash)]
pub enum PcRel {
    Ld,
    Ldi,
    Lea,
    St,
    Sti,
}

#[derive(Debug, Clone, PartialEq, Eq)]
pub enum Stmt {
    Add(u8, u8, Src2),
    And(u8, u8, Src2),
    Not(u8, u8),
    /// nzp bits and the mnemonic as written ("br", "brnzp", "brz", ...)
    Br(u8, String, Target),
    Jmp(u8),
    Jsr(Target),
    Jsrr(u8),
    Mem(PcRel, u8, Target),
    Ldr(u8, u8, Lit),
    Str(u8, u8, Lit),
    Ret,
    Rti,
    Trap(Lit),
    /// vector, mnemonic
    Named(u8, &'static str),
    Push(u8),
    Pop(u8),
    Call(Target),
    Rets,
    Fill(Lit),
    Blkw(Lit),
    /// raw text between the quotes, as written (escapes not yet processed)
    Stringz(String),
}

pub const NAMED_TRAPS: [(u8, &str); 8] = [
    (0x20, "getc"),
    (0x21, "out"),
    (0x22, "puts"),
    (0x23, "in"),
    (0x24, "putsp"),
    (0x25, "halt"),
    (0x26, "putn"),
    (0x27, "reg"),
];

pub const BR_MNEMONICS: [(u8, &str); 8] = [
    (0b111, "br"),
    (0b111, "brnzp"),
    (0b110, "brnz"),
    (0b011, "brzp"),
    (0b101, "brnp"),
    (0b100, "brn"),
    (0b010, "brz"),
    (0b001, "brp"),
];

#[derive(Debug, Clone, PartialEq, Eq)]
pub enum Item {
    Orig(Lit),
    Break,
    Stmt { label: Option<String>, stmt: Stmt },
    /// `label .break`: the label marks the address of the next statement, like the breakpoint
    LBreak(String),
    /// `label .orig xNNNN`
    LOrig(String, Lit),
}

#[derive(Debug, Clone, PartialEq, Eq, Default)]
pub struct Program {
    pub items: Vec<Item>,
}

impl Program {
    pub fn of(stmts: Vec<Stmt>) -> Program {
        Program { items: stmts.into_iter().map(|stmt| Item::Stmt { label: None, stmt }).collect() }
    }
    pub fn push(&mut self, label: Option<&str>, stmt: Stmt) {
        self.items.push(Item::Stmt { label: label.map(|s| s.to_string()), stmt });
    }
    pub fn uses_stack_ext(&self) -> bool {
        self.items.iter().any(|i| {
            matches!(i, Item::Stmt { stmt: Stmt::Push(_) | Stmt::Pop(_) | Stmt::Call(_) | Stmt::Rets, .. })
        })
    }
}

#[derive(Debug, Clone, PartialEq, Eq)]
pub enum Reject {
    OperandRange { item: usize, what: &'static str },
    LabelTooFar { item: usize },
    /// The distance does not fit the field, but is congruent modulo 2^16 to one that does. Since
    /// all address arithmetic is modulo 2^16 the wrapped encoding still reaches the label;
    /// whether this counts as "fitting" is not judged.
    LabelWraps { item: usize },
    UndefinedLabel { item: usize, label: String },
    DuplicateLabel { item: usize, label: String },
    OrigTwice { item: usize },
    /// needs `-f stack`
    StackFeature { item: usize },
    /// image would not fit the 16-bit address space; what the assembler does is not pinned
    TooLong,
}

#[derive(Debug, Clone, PartialEq, Eq, Default)]
pub struct Image {
    pub orig: Option<u16>,
    pub words: Vec<u16>,
    /// statement index (word offset from origin) of each `.break`
    pub breaks: Vec<u16>,
    /// for each word, the index in `Program::items` of the statement that produced it
    pub item_of_word: Vec<usize>,
    /// label -> word offset
    pub labels: Vec<(String, u32)>,
}

impl Image {
    pub fn origin(&self) -> u16 {
        self.orig.unwrap_or(0x3000)
    }
    pub fn raw(&self) -> Vec<u16> {
        let mut v = Vec::with_capacity(self.words.len() + 1);
        v.push(self.origin());
        v.extend_from_slice(&self.words);
        v
    }
}

/// Decode the escapes the README/lexer document for `.stringz`: \n \t \r \\ \" ; any other
/// backslash pair stays as written.
pub fn unescape(raw: &str) -> Vec<char> {
    let mut out = Vec::new();
    let mut it = raw.chars();
    while let Some(c) = it.next() {
        if c != '\\' {
            out.push(c);
            continue;
        }
        match it.next() {
            Some('n') => out.push('\n'),
            Some('t') => out.push('\t'),
            Some('r') => out.push('\r'),
            Some('\\') => out.push('\\'),
            Some('"') => out.push('"'),
            Some(o) => {
                out.push('\\');
                out.push(o);
            }
            None => out.push('\\'),
        }
    }
    out
}

pub fn stmt_len(s: &Stmt) -> u32 {
    match s {
        Stmt::Blkw(l) => l.word as u32,
        Stmt::Stringz(raw) => unescape(raw).len() as u32 + 1,
        _ => 1,
    }
}

fn reg(r: u8) -> u16 {
    assert!(r < 8);
    r as u16
}

/// What the ISA says the image is, or why the program is not acceptable.
pub fn encode(p: &Program, stack: bool) -> Result<Image, Reject> {
    // pass 1: addresses and labels
    let mut labels: HashMap<&str, u32> = HashMap::new();
    let mut label_list = Vec::new();
    let mut addr: u32 = 0;
    let mut orig: Option<u16> = None;
    let mut breaks = Vec::new();
    let mut addrs = Vec::with_capacity(p.items.len());
    for (i, item) in p.items.iter().enumerate() {
        addrs.push(addr);
        match item {
            Item::Orig(l) => {
                if orig.is_some() {
                    return Err(Reject::OrigTwice { item: i });
                }
                orig = Some(l.word);
            }
            Item::Break => breaks.push(addr as u16),
            Item::LBreak(l) | Item::LOrig(l, _) => {
                if labels.insert(l.as_str(), addr).is_some() {
                    return Err(Reject::DuplicateLabel { item: i, label: l.clone() });
                }
                label_list.push((l.clone(), addr));
                match item {
                    Item::LBreak(_) => breaks.push(addr as u16),
                    Item::LOrig(_, lit) => {
                        if orig.is_some() {
                            return Err(Reject::OrigTwice { item: i });
                        }
                        orig = Some(lit.word);
                    }
                    _ => unreachable!(),
                }
            }
            Item::Stmt { label, stmt } => {
                if let Some(l) = label {
                    if labels.insert(l.as_str(), addr).is_some() {
                        return Err(Reject::DuplicateLabel { item: i, label: l.clone() });
                    }
                    label_list.push((l.clone(), addr));
                }
                if !stack && matches!(stmt, Stmt::Push(_) | Stmt::Pop(_) | Stmt::Call(_) | Stmt::Rets) {
                    return Err(Reject::StackFeature { item: i });
                }
                addr += stmt_len(stmt);
            }
        }
    }
    if addr > 0xFFFF {
        return Err(Reject::TooLong);
    }
    // pass 2
    let mut img = Image { orig, breaks, labels: label_list, ..Default::default() };
    for (i, item) in p.items.iter().enumerate() {
        let Item::Stmt { stmt, .. } = item else { continue };
        let here = addrs[i];
        let pcrel = |t: &Target, bits: u32| -> Result<u16, Reject> {
            match t {
                Target::Lit(l) => l.signed_fit(bits).ok_or(Reject::OperandRange { item: i, what: "pc offset literal" }),
                Target::Label(name) => {
                    let Some(target) = labels.get(name.as_str()) else {
                        return Err(Reject::UndefinedLabel { item: i, label: name.clone() });
                    };
                    let off = *target as i64 - (here as i64 + 1);
                    let lo = -(1i64 << (bits - 1));
                    let hi = (1i64 << (bits - 1)) - 1;
                    if off < lo || off > hi {
                        let wrapped = (off as u16) as i16 as i64;
                        if wrapped >= lo && wrapped <= hi {
                            return Err(Reject::LabelWraps { item: i });
                        }
                        return Err(Reject::LabelTooFar { item: i });
                    }
                    Ok((off as u16) & ((1u32 << bits) - 1) as u16)
                }
            }
        };
        let src2 = |s: &Src2| -> Result<u16, Reject> {
            match s {
                Src2::Reg(r) => Ok(reg(*r)),
                Src2::Imm(l) => l.signed_fit(5).map(|v| v | 0x20).ok_or(Reject::OperandRange { item: i, what: "imm5" }),
            }
        };
        let mut push = |w: u16| {
            img.words.push(w);
            img.item_of_word.push(i);
        };
        match stmt {
            Stmt::Add(d, s, x) => push(0x1000 | reg(*d) << 9 | reg(*s) << 6 | src2(x)?),
            Stmt::And(d, s, x) => push(0x5000 | reg(*d) << 9 | reg(*s) << 6 | src2(x)?),
            Stmt::Not(d, s) => push(0x9000 | reg(*d) << 9 | reg(*s) << 6 | 0x3F),
            Stmt::Br(nzp, _, t) => push(((*nzp as u16) << 9) | pcrel(t, 9)?),
            Stmt::Jmp(r) => push(0xC000 | reg(*r) << 6),
            Stmt::Jsr(t) => push(0x4800 | pcrel(t, 11)?),
            Stmt::Jsrr(r) => push(0x4000 | reg(*r) << 6),
            Stmt::Mem(k, r, t) => {
                let op = match k {
                    PcRel::Ld => 0x2000,
                    PcRel::Ldi => 0xA000,
                    PcRel::Lea => 0xE000,
                    PcRel::St => 0x3000,
                    PcRel::Sti => 0xB000,
                };
                push(op | reg(*r) << 9 | pcrel(t, 9)?)
            }
            Stmt::Ldr(d, b, o) => push(
                0x6000 | reg(*d) << 9 | reg(*b) << 6 | o.signed_fit(6).ok_or(Reject::OperandRange { item: i, what: "offset6" })?,
            ),
            Stmt::Str(s, b, o) => push(
                0x7000 | reg(*s) << 9 | reg(*b) << 6 | o.signed_fit(6).ok_or(Reject::OperandRange { item: i, what: "offset6" })?,
            ),
            Stmt::Ret => push(0xC1C0),
            Stmt::Rti => push(0x8000),
            Stmt::Trap(v) => push(0xF000 | v.unsigned_fit(8).ok_or(Reject::OperandRange { item: i, what: "trapvect8" })?),
            Stmt::Named(v, _) => push(0xF000 | *v as u16),
            Stmt::Push(r) => push(0xD400 | reg(*r) << 6),
            Stmt::Pop(r) => push(0xD000 | reg(*r) << 6),
            Stmt::Call(t) => push(0xDC00 | pcrel(t, 10)?),
            Stmt::Rets => push(0xD800),
            Stmt::Fill(l) => push(l.word),
            Stmt::Blkw(l) => {
                for _ in 0..l.word {
                    push(0);
                }
            }
            Stmt::Stringz(raw) => {
                for c in unescape(raw) {
                    push(c as u32 as u16);
                }
                push(0);
            }
        }
    }
    Ok(img)
}

// ---------------------------------------------------------------------------------------------
// Printer

#[derive(Debug, Clone, Copy, PartialEq, Eq)]
pub enum Case {
    Lower,
    Upper,
    Mixed,
}

#[derive(Debug, Clone, Copy, PartialEq, Eq)]
pub struct Layout {
    pub case: Case,
    /// separator between operands
    pub sep: &'static str,
    /// ":" after labels
    pub colon: bool,
    /// label on its own line
    pub label_own_line: bool,
    /// 0 none, 1 trailing comment on every statement, 2 comment lines between statements
    pub comment: u8,
    pub blank_lines: bool,
    /// 0 absent, 1 `.end`, 2 `.end` followed by garbage
    pub end: u8,
    pub indent: &'static str,
    /// statements separated by a single space instead of a newline
    pub one_line: bool,
    /// a separator (`,`) after the last operand of every statement that has operands
    pub trailing_sep: bool,
}

impl Layout {
    pub const PLAIN: Layout = Layout {
        case: Case::Lower,
        sep: " ",
        colon: false,
        label_own_line: false,
        comment: 0,
        blank_lines: false,
        end: 0,
        indent: "",
        one_line: false,
        trailing_sep: false,
    };
}

fn cased(s: &str, case: Case) -> String {
    match case {
        Case::Lower => s.to_ascii_lowercase(),
        Case::Upper => s.to_ascii_uppercase(),
        Case::Mixed => s
            .chars()
            .enumerate()
            .map(|(i, c)| if i % 2 == 0 { c.to_ascii_uppercase() } else { c.to_ascii_lowercase() })
            .collect(),
    }
}

fn lit_text(l: &Lit, case: Case) -> String {
    // the case of hex digits / prefix never changes the value
    match case {
        Case::Lower => l.text.clone(),
        Case::Upper => {
            // keep "0x" prefix legal: both x and X are accepted
            l.text.to_ascii_uppercase()
        }
        Case::Mixed => l.text.clone(),
    }
}

/// Text of one statement from mnemonic/directive through its last operand.
pub fn stmt_text(s: &Stmt, lay: &Layout) -> String {
    let c = lay.case;
    let r = |n: &u8| cased(&format!("r{n}"), c);
    let tgt = |t: &Target| match t {
        Target::Label(l) => l.clone(),
        Target::Lit(l) => lit_text(l, c),
    };
    let join = |m: &str, ops: Vec<String>| {
        let mut out = cased(m, c);
        for (i, o) in ops.iter().enumerate() {
            out.push_str(if i == 0 { " " } else { lay.sep });
            out.push_str(o);
        }
        out
    };
    match s {
        Stmt::Add(d, a, x) | Stmt::And(d, a, x) => {
            let m = if matches!(s, Stmt::Add(..)) { "add" } else { "and" };
            let x = match x {
                Src2::Reg(n) => r(n),
                Src2::Imm(l) => lit_text(l, c),
            };
            join(m, vec![r(d), r(a), x])
        }
        Stmt::Not(d, a) => join("not", vec![r(d), r(a)]),
        Stmt::Br(_, m, t) => join(m, vec![tgt(t)]),
        Stmt::Jmp(n) => join("jmp", vec![r(n)]),
        Stmt::Jsr(t) => join("jsr", vec![tgt(t)]),
        Stmt::Jsrr(n) => join("jsrr", vec![r(n)]),
        Stmt::Mem(k, n, t) => {
            let m = match k {
                PcRel::Ld => "ld",
                PcRel::Ldi => "ldi",
                PcRel::Lea => "lea",
                PcRel::St => "st",
                PcRel::Sti => "sti",
            };
            join(m, vec![r(n), tgt(t)])
        }
        Stmt::Ldr(d, b, o) => join("ldr", vec![r(d), r(b), lit_text(o, c)]),
        Stmt::Str(d, b, o) => join("str", vec![r(d), r(b), lit_text(o, c)]),
        Stmt::Ret => cased("ret", c),
        Stmt::Rti => cased("rti", c),
        Stmt::Trap(v) => join("trap", vec![lit_text(v, c)]),
        Stmt::Named(_, m) => cased(m, c),
        Stmt::Push(n) => join("push", vec![r(n)]),
        Stmt::Pop(n) => join("pop", vec![r(n)]),
        Stmt::Call(t) => join("call", vec![tgt(t)]),
        Stmt::Rets => cased("rets", c),
        Stmt::Fill(l) => join(".fill", vec![lit_text(l, c)]),
        Stmt::Blkw(l) => join(".blkw", vec![lit_text(l, c)]),
        Stmt::Stringz(raw) => format!("{} \"{}\"", cased(".stringz", c), raw),
    }
}

/// Printed program plus, for every item that is a statement, the byte span of its text
/// (mnemonic through last operand).
pub struct Printed {
    pub text: String,
    /// (item index, start byte, end byte)
    pub spans: Vec<(usize, usize, usize)>,
}

pub fn print(p: &Program, lay: &Layout) -> Printed {
    let mut text = String::new();
    let mut spans = Vec::new();
    let nl = if lay.one_line { " " } else { "\n" };
    if lay.comment == 2 && !lay.one_line {
        text.push_str("; header é comment\n");
    }
    for (i, item) in p.items.iter().enumerate() {
        if lay.blank_lines && !lay.one_line && i % 2 == 1 {
            text.push('\n');
        }
        match item {
            Item::Orig(l) => {
                text.push_str(lay.indent);
                text.push_str(&cased(".orig", lay.case));
                text.push(' ');
                text.push_str(&lit_text(l, lay.case));
            }
            Item::Break => {
                text.push_str(lay.indent);
                text.push_str(&cased(".break", lay.case));
            }
            Item::LBreak(l) => {
                text.push_str(l);
                text.push_str(if lay.colon { ": " } else { " " });
                text.push_str(&cased(".break", lay.case));
            }
            Item::LOrig(l, lit) => {
                text.push_str(l);
                text.push_str(if lay.colon { ": " } else { " " });
                text.push_str(&cased(".orig", lay.case));
                text.push(' ');
                text.push_str(&lit_text(lit, lay.case));
            }
            Item::Stmt { label, stmt } => {
                if let Some(l) = label {
                    text.push_str(l);
                    if lay.colon {
                        text.push(':');
                    }
                    if lay.label_own_line && !lay.one_line {
                        text.push('\n');
                        text.push_str(lay.indent);
                    } else {
                        text.push(' ');
                    }
                } else {
                    text.push_str(lay.indent);
                }
                let start = text.len();
                let st = stmt_text(stmt, lay);
                text.push_str(&st);
                spans.push((i, start, text.len()));
                if lay.trailing_sep && st.contains(' ') {
                    text.push(',');
                }
            }
        }
        if lay.comment == 1 && !lay.one_line {
            text.push_str(" ; c é");
        }
        text.push_str(nl);
        if lay.comment == 2 && !lay.one_line {
            text.push_str("  ; between\n");
        }
    }
    match lay.end {
        1 => {
            text.push_str(&cased(".end", lay.case));
            text.push('\n');
        }
        2 => {
            text.push_str(&cased(".end", lay.case));
            text.push_str("\nthis is not assembly \"\n");
        }
        _ => {}
    }
    Printed { text, spans }
}

pub fn print_plain(p: &Program) -> String {
    print(p, &Layout::PLAIN).text
}
