//! Reference debugger: a paused/running machine over the reference VM, a sorted duplicate-free
//! breakpoint set, the resume kinds of the property statements. See DESIGN.md appendix A.

use super::vm::{End, Io, Machine, Variant, HALT_PC, USER_END};
use std::collections::{BTreeSet, HashMap};

#[derive(Debug, Clone, PartialEq, Eq)]
pub enum Loc {
    Abs(u16),
    /// label name, offset
    Label(String, i32),
    PcOff(i32),
}

#[derive(Debug, Clone, PartialEq, Eq)]
pub enum Cmd {
    Step,
    StepInto(u16),
    StepOut,
    Continue,
    BreakAdd(Loc),
    BreakRemove(Loc),
    BreakList,
    Reset,
    MoveReg(u8, u16),
    MoveMem(Loc, u16),
    Goto(Loc),
    PrintReg(u8),
    PrintMem(Loc),
    Registers,
    Assembly(Option<Loc>),
    Echo(String),
    Help,
    /// instruction word to execute (already encoded by the reference assembler), or None if the
    /// text must be refused
    Eval(Option<u16>),
    Quit,
    Exit,
}

#[derive(Debug, Clone, Copy, PartialEq, Eq)]
pub enum Pause {
    /// a resume command completed what it promised
    Done,
    Breakpoint,
    Halt,
    OutOfUserSpace,
    /// the command was refused (nothing changed)
    Refused,
    /// the machine stopped the whole process (unknown trap, stack gate, end of input)
    Exit(i32),
    /// RTI reached
    Unspecified,
    /// step budget exhausted
    Fuel,
}

#[derive(Clone)]
pub struct Dbg {
    pub m: Machine,
    pub init: Machine,
    pub bps: BTreeSet<u16>,
    pub labels: HashMap<String, u16>,
    pub stack: bool,
    pub var: Variant,
    /// program output so far
    pub out: String,
    pub out_unjudged: bool,
    /// instructions executed by the last command
    pub last_executed: u64,
    pub total_executed: u64,
    /// pauses observed so far (for non-vacuity gates)
    pub last_pause: Pause,
}

pub fn is_halt(w: u16) -> bool {
    w >> 12 == 0xF && w & 0xFF == 0x25
}
pub fn is_ret(w: u16) -> bool {
    (w >> 12 == 0xC && (w >> 6) & 7 == 7) || (w >> 12 == 0xD && (w >> 10) & 3 == 0b10)
}
pub fn is_call(w: u16) -> bool {
    w >> 12 == 0x4 || (w >> 12 == 0xD && (w >> 10) & 3 == 0b11)
}

#[derive(Debug, Clone, Copy, PartialEq, Eq)]
pub enum Resume {
    StepInto(u64),
    Step,
    StepOut,
    Continue,
}

impl Dbg {
    pub fn new(image: &[u16], breaks: &[u16], labels: &[(String, u32)], stack: bool, var: Variant) -> Option<Dbg> {
        let m = Machine::load(image)?;
        let orig = m.orig;
        Some(Dbg {
            init: m.clone(),
            m,
            bps: breaks.iter().map(|b| orig.wrapping_add(*b)).collect(),
            labels: labels.iter().map(|(n, o)| (n.clone(), orig.wrapping_add(*o as u16))).collect(),
            stack,
            var,
            out: String::new(),
            out_unjudged: false,
            last_executed: 0,
            total_executed: 0,
            last_pause: Pause::Done,
        })
    }

    pub fn user(&self, a: i64) -> bool {
        a >= self.m.orig as i64 && a < USER_END as i64
    }

    /// Address a location denotes, computed in the integers; `None` if it does not denote a
    /// user-space address (unknown label, outside [origin, xFE00)).
    pub fn resolve(&self, loc: &Loc) -> Option<u16> {
        let a: i64 = match loc {
            Loc::Abs(a) => *a as i64,
            Loc::Label(name, off) => *self.labels.get(name)? as i64 + *off as i64,
            Loc::PcOff(off) => self.m.pc as i64 + *off as i64,
        };
        if self.user(a) {
            Some(a as u16)
        } else {
            None
        }
    }

    /// Address for inspection commands (print / assembly): absolute addresses need not be in user
    /// space; label and PC arithmetic must stay inside it.
    pub fn resolve_inspect(&self, loc: &Loc) -> Option<u16> {
        match loc {
            Loc::Abs(a) => Some(*a),
            other => self.resolve(other),
        }
    }

    fn exec_one(&mut self, budget: &mut u64) -> Result<u16, Pause> {
        if *budget == 0 {
            return Err(Pause::Fuel);
        }
        *budget -= 1;
        let w = self.m.mem[self.m.pc as usize];
        self.m.pc = self.m.pc.wrapping_add(1);
        let mut io = Io::new(&[]);
        let end = self.m.step(w, self.stack, self.var, &mut io);
        self.out.push_str(&io.out);
        self.out_unjudged |= io.out_unjudged;
        match end {
            End::Ok => {
                self.last_executed += 1;
                self.total_executed += 1;
                Ok(w)
            }
            End::Exit(c) => Err(Pause::Exit(c)),
            End::Unspecified => Err(Pause::Unspecified),
        }
    }

    pub fn resume(&mut self, kind: Resume, budget: &mut u64) -> Pause {
        self.last_executed = 0;
        if is_halt(self.m.mem[self.m.pc as usize]) && self.m.in_user_space(self.m.pc) {
            return Pause::Refused;
        }
        let mut first = true;
        let mut depth: i64 = 0;
        let return_addr = self.m.pc.wrapping_add(1);
        let started_on_call = is_call(self.m.mem[self.m.pc as usize]);
        loop {
            if !self.m.in_user_space(self.m.pc) {
                return Pause::OutOfUserSpace;
            }
            if !first {
                if self.bps.contains(&self.m.pc) {
                    return Pause::Breakpoint;
                }
                if is_halt(self.m.mem[self.m.pc as usize]) {
                    return Pause::Halt;
                }
            }
            let w = match self.exec_one(budget) {
                Ok(w) => w,
                Err(p) => return p,
            };
            first = false;
            if is_call(w) {
                depth += 1;
            } else if is_ret(w) {
                depth -= 1;
            }
            match kind {
                Resume::StepInto(n) => {
                    if self.last_executed >= n {
                        return Pause::Done;
                    }
                }
                Resume::Step => {
                    if !started_on_call {
                        return Pause::Done;
                    }
                    if self.m.pc == return_addr && depth <= 0 {
                        return Pause::Done;
                    }
                }
                Resume::StepOut => {
                    if is_ret(w) {
                        return Pause::Done;
                    }
                }
                Resume::Continue => {}
            }
        }
    }

    /// The plain VM loop after `quit` / end of input.
    pub fn run_detached(&mut self, budget: &mut u64) -> Pause {
        loop {
            if self.m.pc == HALT_PC {
                return Pause::Done;
            }
            if !self.m.in_user_space(self.m.pc) {
                return Pause::Exit(0xEE);
            }
            if let Err(p) = self.exec_one(budget) {
                return p;
            }
        }
    }

    /// Apply one command. `Pause::Refused` = refused with no effect.
    pub fn apply(&mut self, cmd: &Cmd, budget: &mut u64) -> Pause {
        self.last_executed = 0;
        let p = match cmd {
            Cmd::Step => self.resume(Resume::Step, budget),
            Cmd::StepInto(n) => self.resume(Resume::StepInto((*n).max(1) as u64), budget),
            Cmd::StepOut => {
                if !self.stack {
                    // pinned by tests/expected/check_every_command: MissingFeature::Stack
                    Pause::Refused
                } else {
                    self.resume(Resume::StepOut, budget)
                }
            }
            Cmd::Continue => self.resume(Resume::Continue, budget),
            Cmd::BreakAdd(l) => match self.resolve(l) {
                Some(a) => {
                    if self.bps.insert(a) {
                        Pause::Done
                    } else {
                        Pause::Refused
                    }
                }
                None => Pause::Refused,
            },
            Cmd::BreakRemove(l) => match self.resolve(l) {
                Some(a) => {
                    if self.bps.remove(&a) {
                        Pause::Done
                    } else {
                        Pause::Refused
                    }
                }
                None => Pause::Refused,
            },
            Cmd::Reset => {
                self.m = self.init.clone();
                Pause::Done
            }
            Cmd::MoveReg(r, v) => {
                self.m.r[*r as usize] = *v;
                Pause::Done
            }
            Cmd::MoveMem(l, v) => match self.resolve(l) {
                Some(a) => {
                    self.m.mem[a as usize] = *v;
                    Pause::Done
                }
                None => Pause::Refused,
            },
            Cmd::Goto(l) => match self.resolve(l) {
                Some(a) => {
                    self.m.pc = a;
                    Pause::Done
                }
                None => Pause::Refused,
            },
            Cmd::Eval(Some(w)) => {
                let mut io = Io::new(&[]);
                let end = self.m.step(*w, self.stack, self.var, &mut io);
                self.out.push_str(&io.out);
                self.out_unjudged |= io.out_unjudged;
                match end {
                    End::Ok => Pause::Done,
                    End::Exit(c) => Pause::Exit(c),
                    End::Unspecified => Pause::Unspecified,
                }
            }
            Cmd::Eval(None) => Pause::Refused,
            Cmd::BreakList | Cmd::PrintReg(_) | Cmd::PrintMem(_) | Cmd::Registers | Cmd::Assembly(_) | Cmd::Echo(_) | Cmd::Help => Pause::Done,
            Cmd::Quit | Cmd::Exit => Pause::Done,
        };
        self.last_pause = p;
        p
    }

    pub fn breakpoints(&self) -> Vec<u16> {
        self.bps.iter().copied().collect()
    }
}

pub fn loc_text(l: &Loc) -> String {
    match l {
        Loc::Abs(a) => format!("x{a:04x}"),
        Loc::Label(n, 0) => n.clone(),
        Loc::Label(n, o) if *o > 0 => format!("{n}+{o}"),
        Loc::Label(n, o) => format!("{n}{o}"),
        Loc::PcOff(0) => "^".into(),
        Loc::PcOff(o) => format!("^{o}"),
    }
}

/// Text of a command in the documented command language.
pub fn cmd_text(c: &Cmd, eval_text: Option<&str>) -> String {
    match c {
        Cmd::Step => "step".into(),
        Cmd::StepInto(n) => format!("step into {n}"),
        Cmd::StepOut => "step out".into(),
        Cmd::Continue => "continue".into(),
        Cmd::BreakAdd(l) => format!("break add {}", loc_text(l)),
        Cmd::BreakRemove(l) => format!("break remove {}", loc_text(l)),
        Cmd::BreakList => "break list".into(),
        Cmd::Reset => "reset".into(),
        Cmd::MoveReg(r, v) => format!("move r{r} x{v:04x}"),
        Cmd::MoveMem(l, v) => format!("move {} x{v:04x}", loc_text(l)),
        Cmd::Goto(l) => format!("goto {}", loc_text(l)),
        Cmd::PrintReg(r) => format!("print r{r}"),
        Cmd::PrintMem(l) => format!("print {}", loc_text(l)),
        Cmd::Registers => "registers".into(),
        Cmd::Assembly(None) => "assembly".into(),
        Cmd::Assembly(Some(l)) => format!("assembly {}", loc_text(l)),
        Cmd::Echo(s) => format!("echo {s}"),
        Cmd::Help => "help".into(),
        Cmd::Eval(_) => format!("eval {}", eval_text.unwrap_or("")),
        Cmd::Quit => "quit".into(),
        Cmd::Exit => "exit".into(),
    }
}
