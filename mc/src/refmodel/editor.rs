//! Reference line editor: a `Vec<char>`, a cursor, a history list with a focus index.
//! Semantics follow the doc comments of lace's terminal reader (history focus, Vim-like `w`/`b`
//! word motions with the classes white space / alphanumeric / other).

#[derive(Debug, Clone, Copy, PartialEq, Eq, Hash)]
pub enum Key {
    Char(char),
    Backspace,
    Delete,
    Left,
    Right,
    CtrlLeft,
    CtrlRight,
    Up,
    Down,
    Enter,
}

#[derive(Debug, Clone, PartialEq, Eq, Default)]
pub struct Editor {
    /// the new line being composed
    pub next: Vec<char>,
    pub cursor: usize,
    pub history: Vec<String>,
    /// == history.len() when the new line is focused
    pub index: usize,
    /// every line submitted with Enter
    pub submitted: Vec<String>,
    /// Unspecified corner, measured on the implementation: Ctrl+Right from a word that is followed
    /// only by white space stops on that white space (true) or goes to the end of the line (false).
    pub w_stops_at_trailing_space: bool,
    /// Unspecified corner, measured on the implementation: Enter on a focused history entry that
    /// is blank (only possible with a history file written by something else) submits it (true)
    /// or is refused like a blank new line (false).
    pub blank_history_submits: bool,
}

#[derive(Clone, Copy, PartialEq, Eq)]
enum Class {
    Space,
    Word,
    Punct,
}

fn class(c: char) -> Class {
    if c.is_whitespace() {
        Class::Space
    } else if c.is_alphanumeric() {
        Class::Word
    } else {
        Class::Punct
    }
}

impl Editor {
    pub fn new(history: Vec<String>) -> Editor {
        let index = history.len();
        Editor { history, index, ..Default::default() }
    }

    pub fn current(&self) -> Vec<char> {
        if self.index >= self.history.len() {
            self.next.clone()
        } else {
            self.history[self.index].chars().collect()
        }
    }

    fn focus_next(&mut self) {
        if self.index < self.history.len() {
            self.next = self.history[self.index].chars().collect();
            self.index = self.history.len();
        }
    }

    /// Returns the submitted line, if this key submitted one.
    pub fn key(&mut self, key: Key) -> Option<String> {
        match key {
            Key::Char(c) => {
                if c.is_control() {
                    return None;
                }
                self.focus_next();
                self.next.insert(self.cursor, c);
                self.cursor += 1;
            }
            Key::Backspace => {
                self.focus_next();
                if self.cursor > 0 {
                    self.cursor -= 1;
                    self.next.remove(self.cursor);
                }
            }
            Key::Delete => {
                self.focus_next();
                if self.cursor < self.next.len() {
                    self.next.remove(self.cursor);
                }
            }
            Key::Left => {
                if self.cursor > 0 {
                    self.cursor -= 1;
                }
            }
            Key::Right => {
                if self.cursor < self.current().len() {
                    self.cursor += 1;
                }
            }
            Key::CtrlLeft => {
                let line = self.current();
                self.cursor = word_back(&line, self.cursor);
            }
            Key::CtrlRight => {
                let line = self.current();
                self.cursor = word_next(&line, self.cursor, self.w_stops_at_trailing_space);
            }
            Key::Up => {
                if self.index > 0 {
                    self.index -= 1;
                    self.cursor = self.current().len();
                }
            }
            Key::Down => {
                if self.index < self.history.len() {
                    self.index += 1;
                    self.cursor = self.current().len();
                }
            }
            Key::Enter => {
                let focused_new = self.index >= self.history.len();
                let line: String = self.current().into_iter().collect();
                if line.trim().is_empty() && (focused_new || !self.blank_history_submits) {
                    self.next.clear();
                    self.cursor = 0;
                    self.index = self.history.len();
                    return None;
                }
                if self.history.last() != Some(&line) {
                    self.history.push(line.clone());
                }
                self.index = self.history.len();
                self.next.clear();
                self.cursor = 0;
                self.submitted.push(line.clone());
                return Some(line);
            }
        }
        None
    }
}

/// Vim `w`: start of the next word; end of line if there is none.
pub fn word_next(line: &[char], cursor: usize, stops_at_trailing_space: bool) -> usize {
    let n = line.len();
    if cursor >= n {
        return n;
    }
    let mut i = cursor;
    let c0 = class(line[i]);
    if c0 != Class::Space {
        while i < n && class(line[i]) == c0 {
            i += 1;
        }
    }
    let word_end = i;
    while i < n && class(line[i]) == Class::Space {
        i += 1;
    }
    if i == n && word_end < n && c0 == Class::Word && stops_at_trailing_space {
        // nothing but white space follows the alphanumeric word the cursor was on
        return word_end;
    }
    i
}

/// Vim `b`: start of the word to the left of the cursor; start of line if there is none.
pub fn word_back(line: &[char], cursor: usize) -> usize {
    if cursor == 0 || line.is_empty() {
        return 0;
    }
    let mut i = cursor.min(line.len()) - 1;
    while i > 0 && class(line[i]) == Class::Space {
        i -= 1;
    }
    if class(line[i]) == Class::Space {
        return 0;
    }
    let c = class(line[i]);
    while i > 0 && class(line[i - 1]) == c {
        i -= 1;
    }
    i
}
