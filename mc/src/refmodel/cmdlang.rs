//! Reference recogniser for the debugger's argument language, written from the documentation
//! (help.txt, the doc comments of `Integer::try_parse`, `NaiveType`) as a plain case analysis.

#[derive(Debug, Clone, Copy, PartialEq, Eq)]
pub enum Int {
    /// not an integer at all (may still be a label)
    NotInt,
    /// looks like an integer but is malformed / too large
    Bad,
    Val(i64),
}

fn digit(c: char, radix: u32) -> Option<u32> {
    c.to_digit(16).filter(|d| *d < radix && (c.is_ascii_hexdigit()))
}

fn digits(s: &str, radix: u32) -> Option<i64> {
    if s.is_empty() {
        return None;
    }
    let mut v: i64 = 0;
    for c in s.chars() {
        let d = digit(c, radix)?;
        v = v * radix as i64 + d as i64;
        if v > i32::MAX as i64 {
            // keep scanning for invalid digits? the documented result is an error either way
            return Some(i64::MAX);
        }
    }
    Some(v)
}

fn strip_sign(s: &str) -> (Option<i64>, &str) {
    if let Some(r) = s.strip_prefix('+') {
        (Some(1), r)
    } else if let Some(r) = s.strip_prefix('-') {
        (Some(-1), r)
    } else {
        (None, s)
    }
}

fn radix_of(c: char) -> Option<u32> {
    match c {
        'x' | 'X' => Some(16),
        'o' | 'O' => Some(8),
        'b' | 'B' => Some(2),
        _ => None,
    }
}

fn finish(sign: Option<i64>, mag: Option<i64>) -> Int {
    match mag {
        None => Int::Bad,
        Some(m) if m > i32::MAX as i64 => Int::Bad,
        Some(m) => Int::Val(sign.unwrap_or(1) * m),
    }
}

/// `require_sign`: the form used for label offsets (`Foo+4`), where the sign must come first.
pub fn integer(s: &str, require_sign: bool) -> Int {
    if s.is_empty() {
        return Int::NotInt;
    }
    let (sign1, rest) = strip_sign(s);
    if require_sign && sign1.is_none() {
        return Int::Bad;
    }
    let mut chars = rest.chars();
    let Some(c0) = chars.next() else {
        return Int::Bad; // only a sign
    };
    if c0 == '#' {
        let (sign2, body) = strip_sign(&rest[1..]);
        if sign1.is_some() && sign2.is_some() {
            return Int::Bad;
        }
        return finish(sign1.or(sign2), digits(body, 10));
    }
    if c0.is_ascii_digit() {
        // optional single zero before a non-decimal prefix
        if c0 == '0' {
            if let Some(radix) = rest[1..].chars().next().and_then(radix_of) {
                let (sign2, body) = strip_sign(&rest[2..]);
                if sign1.is_some() && sign2.is_some() {
                    return Int::Bad;
                }
                return finish(sign1.or(sign2), digits(body, radix));
            }
        }
        return finish(sign1, digits(rest, 10));
    }
    if let Some(radix) = radix_of(c0) {
        let (sign2, body) = strip_sign(&rest[1..]);
        if sign1.is_some() && sign2.is_some() {
            return Int::Bad;
        }
        let sign = sign1.or(sign2);
        return match digits(body, radix) {
            Some(m) => finish(sign, Some(m)),
            // a bare prefix letter followed by non-digits is an ordinary word (a label), unless
            // a sign already committed it to being a number
            None => {
                if sign.is_some() {
                    Int::Bad
                } else {
                    Int::NotInt
                }
            }
        };
    }
    if sign1.is_some() {
        Int::Bad
    } else {
        Int::NotInt
    }
}

#[derive(Debug, Clone, PartialEq, Eq)]
pub enum Loc {
    Register(u8),
    Address(u16),
    PcOffset(i16),
    Label(String, i16),
}

impl Loc {
    /// `Debug` rendering of lace's `MemoryLocation`
    pub fn memory_debug(&self) -> String {
        match self {
            Loc::Register(_) => unreachable!(),
            Loc::Address(a) => format!("Address({a})"),
            Loc::PcOffset(o) => format!("PCOffset({o})"),
            Loc::Label(n, o) => format!("Label(Label {{ name: {n:?}, offset: {o} }})"),
        }
    }
    /// `Debug` rendering of lace's `Location`
    pub fn location_debug(&self) -> String {
        match self {
            Loc::Register(r) => format!("Register(R{r})"),
            other => format!("Memory({})", other.memory_debug()),
        }
    }
}

fn label_char(c: char) -> bool {
    c.is_ascii_alphanumeric() || c == '_'
}

fn register_like(s: &str) -> Option<(u8, bool)> {
    // ([rR][0-7]) and whether something that cannot continue a label follows
    let mut it = s.chars();
    let r = it.next()?;
    if r != 'r' && r != 'R' {
        return None;
    }
    let d = it.next()?;
    if !('0'..='7').contains(&d) {
        return None;
    }
    match it.next() {
        None => Some((d as u8 - b'0', true)),
        Some(c) if label_char(c) => None,
        Some(_) => Some((d as u8 - b'0', false)),
    }
}

/// An `Address+` argument: absolute address, label with optional offset, or `^offset`.
pub fn memory_location(s: &str) -> Result<Loc, ()> {
    if s.is_empty() {
        return Err(());
    }
    if let Some(rest) = s.strip_prefix('^') {
        if rest.is_empty() {
            return Ok(Loc::PcOffset(0));
        }
        return match integer(rest, false) {
            Int::Val(v) if (-32768..=32767).contains(&v) => Ok(Loc::PcOffset(v as i16)),
            _ => Err(()),
        };
    }
    if register_like(s).is_some() {
        return Err(()); // a register is not an address
    }
    match integer(s, false) {
        Int::Val(v) if (0..=65535).contains(&v) => return Ok(Loc::Address(v as u16)),
        Int::Val(_) | Int::Bad => return Err(()),
        Int::NotInt => {}
    }
    let first = s.chars().next().unwrap();
    if !(first.is_ascii_alphabetic() || first == '_') {
        return Err(());
    }
    let end = s.char_indices().find(|(_, c)| !label_char(*c)).map(|(i, _)| i).unwrap_or(s.len());
    let (name, off) = s.split_at(end);
    if off.is_empty() {
        return Ok(Loc::Label(name.to_string(), 0));
    }
    match integer(off, true) {
        Int::Val(v) if (-32768..=32767).contains(&v) => Ok(Loc::Label(name.to_string(), v as i16)),
        _ => Err(()),
    }
}

/// A `Register | Address+` argument.
pub fn location(s: &str) -> Result<Loc, ()> {
    match register_like(s) {
        Some((r, true)) => Ok(Loc::Register(r)),
        Some((_, false)) => Err(()),
        None => memory_location(s),
    }
}

/// An `Integer` argument as a 16-bit value: 0..=65535, or -32768..=-1 cast.
pub fn integer_u16(s: &str) -> Result<u16, ()> {
    if s.starts_with('^') || register_like(s).is_some() {
        return Err(());
    }
    match integer(s, false) {
        Int::Val(v) if (0..=65535).contains(&v) => Ok(v as u16),
        Int::Val(v) if (-32768..0).contains(&v) => Ok(v as i16 as u16),
        _ => Err(()),
    }
}
