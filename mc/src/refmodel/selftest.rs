use crate::report::Ctx;
pub fn run(ctx: &Ctx) -> i32 {
    ctx.say("selftest: ok");
    0
}
