//! Binding the reference models to what the repository itself pins: the expectation tables of
//! lace's own unit tests are read from `/repo/src` and evaluated on the references. A mismatch means
//! a reference disagrees with behaviour the suite guarantees, and `bin/setup` refuses to proceed.

use super::asm::*;
use super::cmdlang::{self, Int, Loc};
use crate::report::Ctx;

/// Parse `name(arg, arg, ...)` calls spread over one line: returns the raw argument text.
fn calls<'a>(src: &'a str, name: &str) -> Vec<&'a str> {
    let mut out = Vec::new();
    for line in src.lines() {
        let t = line.trim();
        if let Some(rest) = t.strip_prefix(name) {
            if let Some(rest) = rest.strip_prefix('(') {
                if let Some(end) = rest.rfind(");") {
                    out.push(&rest[..end]);
                }
            }
        }
    }
    out
}

/// First string literal of an argument list and the text after it.
fn first_string(args: &str) -> Option<(String, &str)> {
    let start = args.find('"')?;
    let rest = &args[start + 1..];
    let mut s = String::new();
    let mut chars = rest.char_indices();
    while let Some((i, c)) = chars.next() {
        match c {
            '\\' => {
                if let Some((_, n)) = chars.next() {
                    s.push(n);
                }
            }
            '"' => return Some((s, &rest[i + 1..])),
            _ => s.push(c),
        }
    }
    None
}

fn parse_rust_int(t: &str) -> Option<i64> {
    let t = t.trim().replace('_', "");
    let (neg, t) = match t.strip_prefix('-') {
        Some(r) => (true, r.to_string()),
        None => (false, t),
    };
    let v = if let Some(h) = t.strip_prefix("0x") {
        i64::from_str_radix(h, 16).ok()?
    } else if let Some(o) = t.strip_prefix("0o") {
        i64::from_str_radix(o, 8).ok()?
    } else if let Some(b) = t.strip_prefix("0b") {
        i64::from_str_radix(b, 2).ok()?
    } else {
        t.parse().ok()?
    };
    Some(if neg { -v } else { v })
}

pub fn run(ctx: &Ctx) -> i32 {
    let mut checked = 0;
    let mut failed = Vec::new();

    // 1. integer.rs: expect_integer(signed, "input", Ok(Some(v)) | Ok(None) | Err(()))
    if let Ok(src) = std::fs::read_to_string("/repo/src/debugger/command/parse/integer.rs") {
        for args in calls(&src, "expect_integer") {
            let signed = args.trim_start().starts_with("true");
            let Some((input, rest)) = first_string(args) else { continue };
            let got = cmdlang::integer(&input, signed);
            let want = if rest.contains("Err(())") {
                Int::Bad
            } else if rest.contains("Ok(None)") {
                Int::NotInt
            } else if let Some(p) = rest.find("Ok(Some(") {
                let inner = &rest[p + 8..];
                let Some(end) = inner.find("))") else { continue };
                let Some(v) = parse_rust_int(&inner[..end]) else { continue };
                Int::Val(v)
            } else {
                continue;
            };
            checked += 1;
            if got != want {
                failed.push(format!("integer({input:?}, signed={signed}) = {got:?}, the repository's test pins {want:?}"));
            }
        }
    }
    // 2. parse/mod.rs: expect_location / expect_memory_location acceptance
    if let Ok(src) = std::fs::read_to_string("/repo/src/debugger/command/parse/mod.rs") {
        for (name, memory_only) in [("expect_location", false), ("expect_memory_location", true)] {
            for args in calls(&src, name) {
                let Some((input, rest)) = first_string(args) else { continue };
                if rest.trim_start().starts_with(',') && rest.trim().len() < 3 {
                    continue; // multi-line expectation: the value is on the following lines
                }
                let got = if memory_only { cmdlang::memory_location(&input) } else { cmdlang::location(&input) };
                let want_ok = if rest.contains("Err(())") || rest.contains("Ok(None)") {
                    false
                } else if rest.contains("Ok(Some(") {
                    true
                } else {
                    continue;
                };
                // Caller-responsibility case documented in the test itself: registers parse as labels
                // in `MemoryLocation::try_parse`, the command layer rejects them before (NaiveType)
                if memory_only && matches!(input.as_str(), "r0") {
                    continue;
                }
                checked += 1;
                if got.is_ok() != want_ok {
                    failed.push(format!("{name}({input:?}) accepted={}, the repository's test pins accepted={want_ok}", got.is_ok()));
                }
                if let (Ok(Loc::Address(a)), Some(p)) = (&got, rest.find("Address(")) {
                    let inner = &rest[p + 8..];
                    if let Some(v) = inner.find(')').and_then(|e| parse_rust_int(&inner[..e])) {
                        checked += 1;
                        if *a as i64 != v {
                            failed.push(format!("{name}({input:?}) = address {a}, pinned {v}"));
                        }
                    }
                }
            }
        }
        for args in calls(&src, "expect_pc_offset") {
            let Some((input, rest)) = first_string(args) else { continue };
            let got = cmdlang::memory_location(&input);
            let want: Option<Option<i64>> = if rest.contains("Err(())") {
                Some(None)
            } else if let Some(p) = rest.find("Ok(Some(") {
                let inner = &rest[p + 8..];
                inner.find("))").and_then(|e| parse_rust_int(&inner[..e])).map(Some)
            } else {
                None // Ok(None): not a PC offset at all; other readings apply
            };
            let Some(want) = want else { continue };
            checked += 1;
            let ok = match (&got, want) {
                (Ok(Loc::PcOffset(o)), Some(v)) => *o as i64 == v,
                (Err(()), None) => true,
                _ => false,
            };
            if !ok {
                failed.push(format!("pc offset {input:?}: reference {got:?}, pinned {want:?}"));
            }
        }
    }
    // 3. label.rs: expect_label("Foo+4", Ok(Some(Label::new("Foo", 4))))
    if let Ok(src) = std::fs::read_to_string("/repo/src/debugger/command/parse/label.rs") {
        for args in calls(&src, "expect_label") {
            let Some((input, rest)) = first_string(args) else { continue };
            if rest.contains("Ok(None)") {
                continue; // "not a label": may still be an integer
            }
            let got = cmdlang::memory_location(&input);
            checked += 1;
            if rest.contains("Err(())") {
                if got.is_ok() {
                    failed.push(format!("label {input:?}: reference accepts {got:?}, pinned Err"));
                }
            } else if let Some((name, after)) = first_string(rest) {
                let off = after.trim_start_matches(',').trim().trim_end_matches(')').trim_end_matches(')').trim_end_matches(')');
                let off = parse_rust_int(off.trim_end_matches(')'));
                match (&got, off) {
                    (Ok(Loc::Label(n, o)), Some(v)) if *n == name && *o as i64 == v => {}
                    _ => failed.push(format!("label {input:?}: reference {got:?}, pinned ({name:?}, {off:?})")),
                }
            }
        }
    }
    // 4. air.rs: the five pinned encodings
    let pinned: [(Stmt, u16); 3] = [
        (Stmt::Add(1, 2, Src2::Reg(3)), 0x1283),
        (Stmt::Add(1, 2, Src2::Imm(Lit::dec(15))), 0x12AF),
        (Stmt::Add(4, 4, Src2::Imm(Lit::dec(-1))), 0x193F),
    ];
    for (stmt, want) in pinned {
        checked += 1;
        let img = encode(&Program::of(vec![stmt.clone()]), false);
        if img.as_ref().map(|i| i.words.clone()).ok() != Some(vec![want]) {
            failed.push(format!("reference encoding of {stmt:?} is {:?}, air.rs pins x{want:04X}", img.map(|i| i.words)));
        }
    }
    // emit_label: BR at line 1 to line 4 = offset 2; emit_label_neg: line 4 to line 1 = offset -4
    let mut p = Program::default();
    p.push(None, Stmt::Br(0b111, "br".into(), Target::Label("t".into())));
    p.push(None, Stmt::Ret);
    p.push(None, Stmt::Ret);
    p.push(Some("t"), Stmt::Ret);
    checked += 1;
    if encode(&p, false).map(|i| i.words[0]).ok() != Some(0b0000111000000010) {
        failed.push("reference BR forward offset differs from air.rs emit_label".into());
    }
    let mut p = Program::default();
    p.push(Some("t"), Stmt::Ret);
    p.push(None, Stmt::Ret);
    p.push(None, Stmt::Ret);
    p.push(None, Stmt::Br(0b111, "br".into(), Target::Label("t".into())));
    checked += 1;
    if encode(&p, false).map(|i| i.words[3]).ok() != Some(0b0000111111111100) {
        failed.push("reference BR backward offset differs from air.rs emit_label_neg".into());
    }
    // 5. runtime.rs s_ext table
    if let Ok(src) = std::fs::read_to_string("/repo/src/runtime.rs") {
        for args in calls(&src, "expect") {
            let parts: Vec<&str> = args.split(',').collect();
            if parts.len() != 3 {
                continue;
            }
            let (Some(i), Some(b), Some(e)) = (parse_rust_int(parts[0]), parse_rust_int(parts[1]), parse_rust_int(parts[2])) else { continue };
            checked += 1;
            let got = super::vm::sext(i as u16, b as u32);
            if got != e as u16 {
                failed.push(format!("sext(x{i:04x}, {b}) = x{got:04x}, runtime.rs pins x{e:04x}"));
            }
        }
    }
    ctx.say(&format!("selftest: {checked} expectations pinned by the repository's own tests evaluated on the reference models, {} mismatches", failed.len()));
    for f in failed.iter().take(20) {
        ctx.say(&format!("  MISMATCH {f}"));
    }
    if checked < 300 {
        ctx.say("selftest: fewer than 300 expectations found (the test tables moved?) - treated as inconclusive, not as failure");
    }
    if failed.is_empty() {
        0
    } else {
        2
    }
}
