//! Driving the real lace library in-process: assembling, running images and debugger sessions,
//! reading the machine back through the `lace_verif` accessors.

use crate::isolate::{case, fresh, guard, Env, Stop, Stopped};
use crate::refmodel::vm::Machine;
use lace::{Air, AsmParser, RunEnvironment, StaticSource};


/// Result of assembling through the public API exactly as `main.rs` does
/// (`AsmParser::new -> parse -> backpatch`, then `emit` for every statement).
#[derive(Debug, Clone, PartialEq, Eq)]
pub enum Asm {
    Ok(AsmOk),
    Err(AsmErr),
}

#[derive(Debug, Clone, PartialEq, Eq, Default)]
pub struct AsmOk {
    pub orig: Option<u16>,
    pub words: Vec<u16>,
    /// statement-relative breakpoint addresses in stored order
    pub breaks: Vec<u16>,
    /// (offset, len) of each statement's span
    pub spans: Vec<(usize, usize)>,
}

#[derive(Debug, Clone, PartialEq, Eq, Default)]
pub struct AsmErr {
    /// "lex" | "parse" | "backpatch" | "emit"
    pub stage: &'static str,
    /// diagnostic code if any
    pub code: String,
    pub message: String,
    pub rendered: String,
    /// labelled spans (offset, len)
    pub labels: Vec<(usize, usize)>,
}

fn describe(stage: &'static str, report: miette::Report) -> AsmErr {
    let code = report.code().map(|c| c.to_string()).unwrap_or_default();
    let message = report.to_string();
    let labels = report
        .labels()
        .map(|it| it.map(|l| (l.offset(), l.len())).collect())
        .unwrap_or_default();
    let rendered = format!("{:?}", report);
    AsmErr { stage, code, message, rendered, labels }
}

/// Parse and backpatch, as `assemble()` in main.rs.
pub fn assemble_air(src: &'static str) -> Result<Air, AsmErr> {
    let parser = AsmParser::new(src).map_err(|e| describe("lex", e))?;
    let mut air = parser.parse().map_err(|e| describe("parse", e))?;
    air.backpatch().map_err(|e| describe("backpatch", e))?;
    Ok(air)
}

/// Must run on a thread whose lace state is fresh (see [`fresh`]).
pub fn assemble_here(text: &str) -> Asm {
    let mut holder = StaticSource::new(text.to_string());
    let result = (|| {
        let air = match assemble_air(holder.src()) {
            Ok(a) => a,
            Err(e) => return Asm::Err(e),
        };
        let mut ok = AsmOk { orig: air.orig(), ..Default::default() };
        for stmt in &air {
            match stmt.emit() {
                Ok(w) => ok.words.push(w),
                Err(e) => return Asm::Err(describe("emit", e)),
            }
            ok.spans.push((stmt.span.offs(), stmt.span.len()));
        }
        ok.breaks = air.breakpoints.iter().map(|b| b.address).collect();
        Asm::Ok(ok)
    })();
    holder.reclaim();
    result
}

/// Assemble with fresh lace state (see [`case`]).
pub fn assemble(text: &str, env: Env) -> Result<Asm, Stopped> {
    case(env, || assemble_here(text))
}

/// Assemble on a fresh OS thread, always.
pub fn assemble_fresh(text: &str, env: Env) -> Result<Asm, Stopped> {
    fresh(env, || assemble_here(text))
}

// ---------------------------------------------------------------------------------------------

#[derive(Debug, Clone, PartialEq, Eq)]
pub enum Ended {
    /// `run()` returned.
    Returned,
    Exit(i32),
    Fuel,
    Panic(String),
    /// anything else (keys exhausted)
    Other(String),
}

impl Ended {
    pub fn from_result(r: Result<(), Stopped>) -> Ended {
        match r {
            Ok(()) => Ended::Returned,
            Err(Stopped::Stop(Stop::Exit(c))) => Ended::Exit(c),
            Err(Stopped::Stop(Stop::Fuel)) => Ended::Fuel,
            Err(Stopped::Stop(s)) => Ended::Other(format!("{s:?}")),
            Err(p @ Stopped::Panic { .. }) => Ended::Panic(p.short()),
        }
    }
}

/// Everything observable about a finished (or stopped) in-process run.
#[derive(Debug, Clone)]
pub struct Obs {
    pub ended: Ended,
    pub machine: Machine,
    pub out: String,
    pub dbg: String,
    pub counters: lace::verif::Counters,
    pub attached: bool,
    pub breakpoints: Option<Vec<(u16, bool)>>,
    pub current_breakpoint: Option<Option<u16>>,
}

pub fn snapshot(env: &RunEnvironment) -> Machine {
    Machine {
        r: env.verif_regs(),
        pc: env.verif_pc(),
        cc: env.verif_cc(),
        mem: Box::new(*env.verif_mem()),
        orig: env.verif_orig(),
    }
}

pub fn observe(env: &RunEnvironment, ended: Ended) -> Obs {
    Obs {
        ended,
        machine: snapshot(env),
        out: lace::verif::take_normal(),
        dbg: lace::verif::take_debugger(),
        counters: lace::verif::counters(),
        attached: env.verif_debugger_attached(),
        breakpoints: env.verif_breakpoints(),
        current_breakpoint: env.verif_current_breakpoint(),
    }
}

/// Run an environment to its end under a step budget (on the current, armed thread).
pub fn run_env(env: &mut RunEnvironment, fuel: u64) -> Obs {
    lace::verif::reset_counters();
    lace::verif::set_fuel(Some(fuel));
    let _ = lace::verif::take_normal();
    let _ = lace::verif::take_debugger();
    let r = guard(|| env.run());
    lace::verif::set_fuel(None);
    observe(env, Ended::from_result(r))
}

#[derive(Debug, Clone)]
pub enum SessionResult {
    AsmFailed(AsmErr),
    /// `RunEnvironment::try_from` refused (emission error) or stopped
    LoadFailed(String),
    Ran(Obs),
}

/// Assemble `text` and run it, optionally under the debugger with `script` as `--command`
/// (stdin is at end of input). Runs on a fresh thread.
pub fn session(text: &str, env: Env, script: Option<&str>, fuel: u64) -> Result<SessionResult, Stopped> {
    case(env, || {
        let holder = StaticSource::new(text.to_string());
        // The source is intentionally not reclaimed: the debugger keeps `&'static` references to
        // it and to command buffers; it is freed when the process ends. (Bounded: ≤ a few hundred
        // bytes per session.)
        let air = match assemble_air(holder.src()) {
            Ok(a) => a,
            Err(e) => return SessionResult::AsmFailed(e),
        };
        let opts = script.map(|s| lace::debugger::Options { command: Some(s.to_string()) });
        let mut env = match guard(|| RunEnvironment::try_from(air, opts)) {
            Ok(Ok(e)) => e,
            Ok(Err(e)) => return SessionResult::LoadFailed(format!("{e}")),
            Err(s) => return SessionResult::LoadFailed(s.short()),
        };
        let obs = run_env(&mut env, fuel);
        drop(env);
        let mut holder = holder;
        holder.reclaim();
        SessionResult::Ran(obs)
    })
}

/// Assemble `text` and load it the way `lace run file.asm` does (`RunEnvironment::try_from`);
/// returns the machine right after loading.
pub fn load_source(text: &str, env: Env) -> Result<Result<Machine, String>, Stopped> {
    case(env, || {
        let holder = StaticSource::new(text.to_string());
        let air = match assemble_air(holder.src()) {
            Ok(a) => a,
            Err(e) => return Err(format!("assembler: {}", e.message)),
        };
        let r = match guard(|| RunEnvironment::try_from(air, None)) {
            Ok(Ok(e)) => Ok(snapshot(&e)),
            Ok(Err(e)) => Err(format!("{e}")),
            Err(s) => Err(s.short()),
        };
        let mut holder = holder;
        holder.reclaim();
        r
    })
}

/// Load a raw image (origin word first) and run it without a debugger.
pub fn run_image(image: &[u16], env: Env, fuel: u64) -> Result<Result<Obs, Ended>, Stopped> {
    case(env, || {
        let mut renv = match guard(|| RunEnvironment::from_raw(image)) {
            Ok(Ok(e)) => e,
            Ok(Err(e)) => return Err(Ended::Other(format!("{e}"))),
            Err(s) => return Err(Ended::from_result(Err(s))),
        };
        Ok(run_env(&mut renv, fuel))
    })
}

/// Load a raw image and return the machine right after loading.
pub fn load_only(image: &[u16], env: Env) -> Result<Result<Machine, Ended>, Stopped> {
    case(env, || match guard(|| RunEnvironment::from_raw(image)) {
        Ok(Ok(e)) => Ok(snapshot(&e)),
        Ok(Err(e)) => Err(Ended::Other(format!("{e}"))),
        Err(s) => Err(Ended::from_result(Err(s))),
    })
}

pub fn machine_diff(a: &Machine, b: &Machine) -> Option<String> {
    for i in 0..8 {
        if a.r[i] != b.r[i] {
            return Some(format!("R{i}: {:04x} vs {:04x}", a.r[i], b.r[i]));
        }
    }
    if a.pc != b.pc {
        return Some(format!("PC: {:04x} vs {:04x}", a.pc, b.pc));
    }
    if a.cc != b.cc {
        return Some(format!("CC: {:03b} vs {:03b}", a.cc, b.cc));
    }
    if a.mem[..] != b.mem[..] {
        for i in 0..65536 {
            if a.mem[i] != b.mem[i] {
                return Some(format!("mem[{i:04x}]: {:04x} vs {:04x}", a.mem[i], b.mem[i]));
            }
        }
    }
    None
}

/// Which component differs first (for signatures): "reg", "pc", "cc", "mem".
pub fn machine_diff_kind(a: &Machine, b: &Machine) -> Option<&'static str> {
    if a.r != b.r {
        Some("reg")
    } else if a.pc != b.pc {
        Some("pc")
    } else if a.cc != b.cc {
        Some("cc")
    } else if a.mem[..] != b.mem[..] {
        Some("mem")
    } else {
        None
    }
}

pub fn machine_digest(m: &Machine) -> u64 {
    let mut h = crate::util::hash_words(&m.mem[..]);
    for r in m.r {
        h = crate::util::mix(h ^ r as u64);
    }
    h = crate::util::mix(h ^ ((m.pc as u64) << 8) ^ m.cc as u64);
    h
}
