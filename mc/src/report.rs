//! Collecting what a check covered and found; writing evidence, replays, the verdict lines.

use serde_json::{json, Value};
use std::collections::{BTreeMap, BTreeSet};
use std::io::Write;
use std::path::{Path, PathBuf};
use std::time::Instant;

#[derive(Debug, Clone, Copy, PartialEq, Eq)]
pub enum Tier {
    Quick,
    Thorough,
}

impl Tier {
    pub fn name(self) -> &'static str {
        match self {
            Tier::Quick => "quick",
            Tier::Thorough => "thorough",
        }
    }
    pub fn pick<T>(self, quick: T, thorough: T) -> T {
        match self {
            Tier::Quick => quick,
            Tier::Thorough => thorough,
        }
    }
}

#[derive(Debug, Clone)]
pub struct Violation {
    /// Stable description of *what* failed (used to match KNOWN_FINDINGS.txt).
    pub sig: String,
    /// Human-readable one-liner.
    pub what: String,
    /// The complete case (enough to re-run it) with expected and observed observation.
    pub case: Value,
}

/// Order-insensitive accumulator, one per worker, merged at the end.
#[derive(Debug, Default)]
pub struct Acc {
    pub evaluations: u64,
    /// Keys of non-trivial outcome classes seen -> count.
    pub outcomes: BTreeMap<String, u64>,
    pub spaces: BTreeMap<String, u64>,
    pub not_judged: BTreeMap<String, u64>,
    pub violations: Vec<Violation>,
    /// (space, index) -> sample; kept small by the caller
    pub samples: BTreeMap<String, Value>,
    pub nontrivial: u64,
    pub gates: BTreeSet<String>,
}

const MAX_VIOLATIONS_PER_SIG: usize = 3;

impl Acc {
    pub fn new() -> Acc {
        Acc::default()
    }
    pub fn eval(&mut self, space: &str) {
        self.evaluations += 1;
        *self.spaces.entry(space.to_string()).or_default() += 1;
    }
    pub fn outcome(&mut self, key: impl Into<String>) {
        *self.outcomes.entry(key.into()).or_default() += 1;
    }
    pub fn nontrivial(&mut self) {
        self.nontrivial += 1;
    }
    pub fn skip(&mut self, why: &str) {
        *self.not_judged.entry(why.to_string()).or_default() += 1;
    }
    pub fn gate(&mut self, name: &str) {
        if !self.gates.contains(name) {
            self.gates.insert(name.to_string());
        }
    }
    pub fn sample(&mut self, key: impl Into<String>, v: Value) {
        let key = key.into();
        if self.samples.len() < 64 || self.samples.contains_key(&key) {
            self.samples.entry(key).or_insert(v);
        }
    }
    pub fn violation(&mut self, sig: impl Into<String>, what: impl Into<String>, case: Value) {
        let sig = sig.into();
        let n = self.violations.iter().filter(|v| v.sig == sig).count();
        if n < MAX_VIOLATIONS_PER_SIG {
            self.violations.push(Violation {
                sig,
                what: what.into(),
                case,
            });
        } else {
            // still count it
            *self
                .outcomes
                .entry(format!("violation-overflow:{sig}"))
                .or_default() += 1;
        }
    }
    pub fn merge(&mut self, other: Acc) {
        self.evaluations += other.evaluations;
        self.nontrivial += other.nontrivial;
        for (k, v) in other.outcomes {
            *self.outcomes.entry(k).or_default() += v;
        }
        for (k, v) in other.spaces {
            *self.spaces.entry(k).or_default() += v;
        }
        for (k, v) in other.not_judged {
            *self.not_judged.entry(k).or_default() += v;
        }
        for v in other.violations {
            let n = self.violations.iter().filter(|x| x.sig == v.sig).count();
            if n < MAX_VIOLATIONS_PER_SIG {
                self.violations.push(v);
            }
        }
        for (k, v) in other.samples {
            if self.samples.len() < 64 {
                self.samples.entry(k).or_insert(v);
            }
        }
        self.gates.extend(other.gates);
    }
    pub fn merge_all(parts: Vec<Acc>) -> Acc {
        let mut all = Acc::new();
        for p in parts {
            all.merge(p);
        }
        all
    }
}

impl crate::isolate::Wire for Acc {
    fn to_value(&self) -> Value {
        json!({
            "evaluations": self.evaluations,
            "outcomes": self.outcomes,
            "spaces": self.spaces,
            "not_judged": self.not_judged,
            "violations": self.violations.iter().map(|v| json!({"sig": v.sig, "what": v.what, "case": v.case})).collect::<Vec<_>>(),
            "samples": self.samples,
            "nontrivial": self.nontrivial,
            "gates": self.gates,
        })
    }
    fn from_value(v: &Value) -> Acc {
        let map = |x: &Value| -> BTreeMap<String, u64> {
            x.as_object().map(|o| o.iter().map(|(k, v)| (k.clone(), v.as_u64().unwrap_or(0))).collect()).unwrap_or_default()
        };
        Acc {
            evaluations: v["evaluations"].as_u64().unwrap_or(0),
            outcomes: map(&v["outcomes"]),
            spaces: map(&v["spaces"]),
            not_judged: map(&v["not_judged"]),
            violations: v["violations"].as_array().map(|a| a.iter().map(|x| Violation { sig: x["sig"].as_str().unwrap_or("").to_string(), what: x["what"].as_str().unwrap_or("").to_string(), case: x["case"].clone() }).collect()).unwrap_or_default(),
            samples: v["samples"].as_object().map(|o| o.iter().map(|(k, v)| (k.clone(), v.clone())).collect()).unwrap_or_default(),
            nontrivial: v["nontrivial"].as_u64().unwrap_or(0),
            gates: v["gates"].as_array().map(|a| a.iter().filter_map(|x| x.as_str().map(|s| s.to_string())).collect()).unwrap_or_default(),
        }
    }
}

pub struct Known {
    /// (property, signature, text)
    pub known: Vec<(String, String, String)>,
}

impl Known {
    pub fn load(path: &Path) -> Known {
        let mut known = Vec::new();
        if let Ok(text) = std::fs::read_to_string(path) {
            for line in text.lines() {
                let line = line.trim();
                if let Some(rest) = line.strip_prefix("known:") {
                    let rest = rest.trim();
                    let mut prop = String::new();
                    let mut sig = String::new();
                    let mut words = rest.splitn(3, ' ');
                    for _ in 0..2 {
                        if let Some(w) = words.next() {
                            if let Some(p) = w.strip_prefix("property=") {
                                prop = p.to_string();
                            } else if let Some(s) = w.strip_prefix("signature=") {
                                sig = s.to_string();
                            }
                        }
                    }
                    let text = words.next().unwrap_or("").to_string();
                    if !prop.is_empty() && !sig.is_empty() {
                        known.push((prop, sig, text));
                    }
                }
            }
        }
        Known { known }
    }
    pub fn find(&self, property: &str, sig: &str) -> Option<&str> {
        self.known
            .iter()
            .find(|(p, s, _)| p == property && s == sig)
            .map(|(_, _, t)| t.as_str())
    }
}

pub struct Ctx {
    pub property: String,
    pub tier: Tier,
    pub seed: u64,
    pub verif_dir: PathBuf,
    pub lace_bin: PathBuf,
    pub scratch: PathBuf,
    pub start: Instant,
    /// Original stdout (fds 1 and 2 of the process are /dev/null while checks run).
    pub out: std::fs::File,
}

impl Ctx {
    pub fn say(&self, line: &str) {
        let mut f = &self.out;
        let _ = writeln!(f, "{line}");
    }
}

pub struct Level {
    pub category: &'static str,
    /// For `model_checking` BFS checks: states / transitions / traces validated.
    pub bfs: Option<(u64, u64, u64, u64)>, // states, transitions, validated, max_depth
}

/// Finish a check: classify violations, print verdict lines, write evidence, return exit code.
pub fn finish(
    ctx: &Ctx,
    acc: Acc,
    level: Level,
    rule: &str,
    exhaustive: bool,
    required_gates: &[&str],
    assumptions: &[&str],
    extra: Value,
) -> i32 {
    let known = Known::load(&ctx.verif_dir.join("KNOWN_FINDINGS.txt"));
    // Worker processes that died on a case and died again when that case was run alone: the code
    // under test does not finish that case (hang -> watchdog, allocation abort, stack overflow).
    let mut acc = acc;
    for death in crate::isolate::take_deaths() {
        acc.violation(
            format!("{}/process-died/{}", ctx.property, death.status.split_whitespace().take(2).collect::<Vec<_>>().join("-")),
            format!("the code under test did not finish case #{} of a worker pool ({}; reproduced when the case was run alone): hang, allocation abort or stack overflow", death.index, death.status),
            serde_json::json!({"worker_death": true, "index": death.index, "status": death.status, "replay_with": format!("bin/check {} {}", ctx.property, ctx.tier.name())}),
        );
    }
    let mut by_sig: BTreeMap<String, Vec<&Violation>> = BTreeMap::new();
    for v in &acc.violations {
        by_sig.entry(v.sig.clone()).or_default().push(v);
    }
    let mut new_violations = 0;
    let mut known_hits = Vec::new();
    let replay_dir = ctx.verif_dir.join("replays");
    let _ = std::fs::create_dir_all(&replay_dir);
    for (sig, vs) in &by_sig {
        if let Some(text) = known.find(&ctx.property, sig) {
            ctx.say(&format!(
                "KNOWN-FINDING: property={} {} [{}]",
                ctx.property, text, sig
            ));
            known_hits.push(sig.clone());
        } else {
            new_violations += 1;
            let file = replay_dir.join(format!(
                "{}-{:016x}.json",
                ctx.property,
                crate::util::hash_str(sig)
            ));
            let body = json!({
                "property": ctx.property,
                "signature": sig,
                "what": vs[0].what,
                "cases": vs.iter().map(|v| v.case.clone()).collect::<Vec<_>>(),
            });
            let _ = std::fs::write(&file, serde_json::to_string_pretty(&body).unwrap());
            let what: String = if vs[0].what.chars().count() > 700 { format!("{} ...[{} characters]", vs[0].what.chars().take(700).collect::<String>(), vs[0].what.chars().count()) } else { vs[0].what.clone() };
            ctx.say(&format!("  what: {what}"));
            ctx.say(&format!(
                "VIOLATION property={} replay={}",
                ctx.property,
                file.display()
            ));
        }
    }

    let missing_gates: Vec<&str> = required_gates
        .iter()
        .copied()
        .filter(|g| !acc.gates.contains(*g))
        .collect();

    let distinct_outcomes = acc.outcomes.len() as u64;
    let mut samples: Vec<Value> = acc.samples.values().cloned().collect();
    if samples.is_empty() {
        // nothing was sampled on the agreeing side (e.g. every case violated): show what was explored
        samples = acc.violations.iter().take(3).map(|v| json!({"violating_case": v.case, "what": v.what})).collect();
    }
    if samples.is_empty() {
        samples.push(json!({"note": "no case was sampled in this run", "spaces": acc.spaces}));
    }
    let mut coverage = json!({
        "evaluations": acc.evaluations,
        "distinct_nontrivial": acc.nontrivial,
        "rule": rule,
        "samples": samples,
        "exhaustive": exhaustive,
        "spaces": acc.spaces,
        "distinct_outcomes": distinct_outcomes,
        "outcome_classes": acc.outcomes,
        "not_judged": acc.not_judged,
        "known_findings_hit": known_hits,
        "gates_observed": acc.gates,
        "extra": extra,
    });
    if let Some((states, transitions, validated, max_depth)) = level.bfs {
        coverage["states"] = json!(states);
        coverage["transitions"] = json!(transitions);
        coverage["traces_validated_against_impl"] = json!(validated);
        coverage["max_depth"] = json!(max_depth);
    }
    let evidence = json!({
        "property_id": ctx.property,
        "tier": ctx.tier.name(),
        "seed": ctx.seed,
        "level": level.category,
        "coverage": coverage,
        "assumptions": assumptions,
        "wall_s": ctx.start.elapsed().as_secs_f64(),
        "violations": new_violations,
    });
    let evidence_dir = ctx.verif_dir.join("evidence");
    let _ = std::fs::create_dir_all(&evidence_dir);
    let path = evidence_dir.join(format!("{}.json", ctx.property));
    std::fs::write(&path, serde_json::to_string_pretty(&evidence).unwrap())
        .expect("write evidence");

    ctx.say(&format!(
        "{} {}: evaluations={} nontrivial={} outcomes={} violations={} known={} wall={:.1}s",
        ctx.property,
        ctx.tier.name(),
        acc.evaluations,
        acc.nontrivial,
        distinct_outcomes,
        new_violations,
        by_sig.len() - new_violations,
        ctx.start.elapsed().as_secs_f64()
    ));
    let machinery = crate::isolate::take_machinery_errors();
    if !machinery.is_empty() {
        for m in &machinery {
            ctx.say(&format!("MACHINERY ERROR: {m}"));
        }
        return 2;
    }
    if new_violations > 0 {
        return 1;
    }
    if !missing_gates.is_empty() {
        ctx.say(&format!(
            "MACHINERY ERROR: vacuous exploration, gates not observed: {missing_gates:?}"
        ));
        return 2;
    }
    0
}
