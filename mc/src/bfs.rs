//! Level-synchronous explicit-state breadth-first search.
//!
//! A state is whatever the caller uses to reach it again (normally the history of actions plus a
//! digest of the product state reached). Every level is expanded in parallel; the successors are
//! then put in canonical order (parent index, action order) and deduplicated sequentially, so the
//! numbers of states and transitions do not depend on thread timing. Depth is iterated 1, 2, …,
//! so the first counterexample is a shortest one.

use crate::isolate::par_fold;
use crate::report::Acc;
use std::collections::HashSet;
use std::time::Instant;

#[derive(Debug, Clone, Default)]
pub struct Stats {
    /// distinct canonical states (roots included)
    pub states: u64,
    /// successor computations = executions of the real code
    pub transitions: u64,
    pub max_depth: u64,
    pub per_level: Vec<u64>,
    pub capped: bool,
}

pub struct Config {
    pub max_depth: usize,
    pub dedup: bool,
    pub state_cap: usize,
    pub wall_cap_s: u64,
}

/// `step(acc, state)` runs every enabled action from `state` on the real code and the reference,
/// records violations in `acc`, bumps `acc.evaluations` once per transition and returns the
/// successors that are to be expanded further (successors on which the two sides disagree are
/// reported and dropped).
pub fn explore<S: Send + Sync>(
    roots: Vec<S>,
    cfg: &Config,
    key: impl Fn(&S) -> u64 + Sync,
    step: impl Fn(&mut Acc, &S) -> Vec<S> + Sync,
) -> (Acc, Stats) {
    let start = Instant::now();
    let mut seen: HashSet<u64> = HashSet::new();
    let mut stats = Stats::default();
    let mut frontier: Vec<S> = Vec::new();
    for r in roots {
        if !cfg.dedup || seen.insert(key(&r)) {
            frontier.push(r);
        }
    }
    stats.states = frontier.len() as u64;
    stats.per_level.push(frontier.len() as u64);
    let mut total = Acc::new();
    for depth in 1..=cfg.max_depth {
        if frontier.is_empty() {
            break;
        }
        let parts = par_fold(
            frontier.len(),
            1,
            || (Acc::new(), Vec::<(usize, Vec<S>)>::new()),
            |(acc, out), i| {
                let children = step(acc, &frontier[i]);
                out.push((i, children));
            },
        );
        let mut all_children: Vec<(usize, Vec<S>)> = Vec::new();
        for (acc, out) in parts {
            total.merge(acc);
            all_children.extend(out);
        }
        all_children.sort_by_key(|(i, _)| *i);
        let mut next = Vec::new();
        for (_, children) in all_children {
            for c in children {
                if !cfg.dedup || seen.insert(key(&c)) {
                    next.push(c);
                }
            }
        }
        stats.max_depth = depth as u64;
        stats.states += next.len() as u64;
        stats.per_level.push(next.len() as u64);
        frontier = next;
        if stats.states as usize > cfg.state_cap || start.elapsed().as_secs() > cfg.wall_cap_s {
            if depth < cfg.max_depth && !frontier.is_empty() {
                stats.capped = true;
            }
            break;
        }
    }
    stats.transitions = total.evaluations;
    (total, stats)
}
