//! Level-synchronous explicit-state breadth-first search.
//!
//! A state is whatever the caller uses to reach it again (normally the history of actions plus a
//! digest of the product state reached). Every level is expanded in parallel; the successors are
//! then put in canonical order (parent index, action order) and deduplicated sequentially, so the
//! numbers of states and transitions do not depend on thread timing. Depth is iterated 1, 2, …,
//! so the first counterexample is a shortest one.

use crate::isolate::Wire;
use serde_json::{json, Value};

/// A search state: how to reach it again (`tag` = which program / initial configuration, `hist` =
/// action ids) and a digest of the canonical product state reached.
#[derive(Debug, Clone, PartialEq, Eq)]
pub struct St {
    pub tag: u32,
    pub hist: Vec<u8>,
    pub digest: u64,
}

impl Wire for St {
    fn to_value(&self) -> Value {
        json!([self.tag, self.hist, self.digest])
    }
    fn from_value(v: &Value) -> St {
        St {
            tag: v[0].as_u64().unwrap_or(0) as u32,
            hist: v[1].as_array().map(|a| a.iter().map(|x| x.as_u64().unwrap_or(0) as u8).collect()).unwrap_or_default(),
            digest: v[2].as_u64().unwrap_or(0),
        }
    }
}

struct Level(Acc, Vec<(usize, Vec<St>)>);

impl Wire for Level {
    fn to_value(&self) -> Value {
        json!({"acc": self.0.to_value(), "out": self.1.iter().map(|(i, c)| json!([i, c.iter().map(|s| s.to_value()).collect::<Vec<_>>()])).collect::<Vec<_>>()})
    }
    fn from_value(v: &Value) -> Level {
        Level(
            Acc::from_value(&v["acc"]),
            v["out"].as_array().map(|a| a.iter().map(|e| (e[0].as_u64().unwrap_or(0) as usize, e[1].as_array().map(|c| c.iter().map(St::from_value).collect()).unwrap_or_default())).collect()).unwrap_or_default(),
        )
    }
}
use crate::report::Acc;
use std::collections::HashSet;
use std::time::Instant;

#[derive(Debug, Clone, Default)]
pub struct Stats {
    /// distinct canonical states (roots included)
    pub states: u64,
    /// successor computations = executions of the real code
    pub transitions: u64,
    pub max_depth: u64,
    pub per_level: Vec<u64>,
    pub capped: bool,
}

pub struct Config {
    pub max_depth: usize,
    pub dedup: bool,
    pub state_cap: usize,
    pub wall_cap_s: u64,
}

/// `step(acc, state)` runs every enabled action from `state` on the real code and the reference,
/// records violations in `acc`, bumps `acc.evaluations` once per transition and returns the
/// successors that are to be expanded further (successors on which the two sides disagree are
/// reported and dropped).
pub fn explore(
    roots: Vec<St>,
    cfg: &Config,
    env: Option<crate::isolate::Env>,
    step: impl Fn(&mut Acc, &St) -> Vec<St> + Sync,
) -> (Acc, Stats) {
    let key = |s: &St| crate::util::mix(s.digest ^ ((s.tag as u64) << 48));
    let start = Instant::now();
    let mut seen: HashSet<u64> = HashSet::new();
    let mut stats = Stats::default();
    let mut frontier: Vec<St> = Vec::new();
    for r in roots {
        if !cfg.dedup || seen.insert(key(&r)) {
            frontier.push(r);
        }
    }
    stats.states = frontier.len() as u64;
    stats.per_level.push(frontier.len() as u64);
    let mut total = Acc::new();
    for depth in 1..=cfg.max_depth {
        if frontier.is_empty() {
            break;
        }
        let chunk = (frontier.len() / (crate::isolate::threads() * 8)).clamp(1, 64);
        let parts = crate::isolate::pooled(
            env,
            frontier.len(),
            chunk,
            || Level(Acc::new(), Vec::new()),
            |lvl: &mut Level, i| {
                let children = step(&mut lvl.0, &frontier[i]);
                lvl.1.push((i, children));
            },
        );
        let mut all_children: Vec<(usize, Vec<St>)> = Vec::new();
        for Level(acc, out) in parts {
            total.merge(acc);
            all_children.extend(out);
        }
        all_children.sort_by_key(|(i, _)| *i);
        let mut next = Vec::new();
        for (_, children) in all_children {
            for c in children {
                if !cfg.dedup || seen.insert(key(&c)) {
                    next.push(c);
                }
            }
        }
        stats.max_depth = depth as u64;
        stats.states += next.len() as u64;
        stats.per_level.push(next.len() as u64);
        frontier = next;
        if stats.states as usize > cfg.state_cap || start.elapsed().as_secs() > cfg.wall_cap_s {
            if depth < cfg.max_depth && !frontier.is_empty() {
                stats.capped = true;
            }
            break;
        }
    }
    stats.transitions = total.evaluations;
    (total, stats)
}
