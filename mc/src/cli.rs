//! Driving the real `lace` binary as a subprocess.

use std::io::Write;
use std::path::{Path, PathBuf};
use std::process::{Command, Stdio};
use std::sync::atomic::{AtomicBool, AtomicUsize, Ordering};
use std::sync::Arc;
use std::time::{Duration, Instant};

/// Subprocesses of this (worker) process that had to be killed so far. After two, the remaining
/// ones get 5 s each: a change that makes `lace` hang is reported from the first cases, the rest
/// of the enumeration must not take a minute per case.
static KILLED: AtomicUsize = AtomicUsize::new(0);
/// Captured output per stream is cut (and the child killed) beyond this: a child that floods its
/// output must not exhaust the host's memory.
const OUTPUT_CAP: usize = 8 << 20;

/// True once six subprocesses of this worker had to be killed: large enumerations stop launching
/// more (each killed one is reported; the rest is recorded as not run).
pub fn too_many_kills() -> bool {
    KILLED.load(Ordering::Relaxed) >= 6
}

#[derive(Debug, Clone, PartialEq, Eq)]
pub struct Run {
    /// exit status, or 1000+signal
    pub status: i32,
    pub stdout: Vec<u8>,
    pub stderr: Vec<u8>,
    pub timed_out: bool,
}

impl Run {
    pub fn out(&self) -> String {
        String::from_utf8_lossy(&self.stdout).into_owned()
    }
    pub fn err(&self) -> String {
        String::from_utf8_lossy(&self.stderr).into_owned()
    }
    /// "success" | "diagnostic" | "crash"
    pub fn class(&self) -> &'static str {
        if self.timed_out {
            "timeout"
        } else if self.status == 0 {
            "success"
        } else if self.status == 101 || self.status >= 1000 {
            "crash"
        } else {
            "diagnostic"
        }
    }
}

pub struct Lace {
    pub bin: PathBuf,
    pub cwd: PathBuf,
}

impl Lace {
    pub fn new(bin: &Path, cwd: &Path) -> Lace {
        Lace { bin: bin.to_path_buf(), cwd: cwd.to_path_buf() }
    }

    pub fn run(&self, args: &[&str], stdin: &[u8]) -> Run {
        self.run_with(args, stdin, &[], None)
    }

    pub fn run_with(&self, args: &[&str], stdin: &[u8], envs: &[(&str, &str)], wrapper: Option<&[&str]>) -> Run {
        self.run_timeout(args, stdin, envs, wrapper, 60)
    }

    pub fn run_timeout(&self, args: &[&str], stdin: &[u8], envs: &[(&str, &str)], wrapper: Option<&[&str]>, timeout_s: u64) -> Run {
        let mut cmd = match wrapper {
            Some(w) => {
                let mut c = Command::new(w[0]);
                c.args(&w[1..]);
                c.arg(&self.bin);
                c
            }
            None => Command::new(&self.bin),
        };
        cmd.args(args)
            .current_dir(&self.cwd)
            .env_clear()
            .env("NO_COLOR", "1")
            .env("HOME", &self.cwd)
            .env("XDG_CACHE_HOME", self.cwd.join("cache"))
            .env("PATH", "/usr/bin:/bin")
            .env("LACE_VERIF_FUEL", "5000000")
            .stdin(Stdio::piped())
            .stdout(Stdio::piped())
            .stderr(Stdio::piped());
        for (k, v) in envs {
            cmd.env(k, v);
        }
        let mut child = cmd.spawn().expect("spawn lace");
        // Standard input is fed from its own thread: a child that prints a lot before it has read
        // all of its input would otherwise block on its full output pipe while we block on its
        // full input pipe.
        let feeder = {
            let mut si = child.stdin.take().unwrap();
            let data = stdin.to_vec();
            std::thread::spawn(move || {
                let _ = si.write_all(&data);
            })
        };
        // Reader threads avoid pipe deadlocks; a generous wall clock guards against hangs.
        let so = child.stdout.take().unwrap();
        let se = child.stderr.take().unwrap();
        let flooded = Arc::new(AtomicBool::new(false));
        fn capture(mut r: impl std::io::Read + Send + 'static, flooded: Arc<AtomicBool>) -> std::thread::JoinHandle<Vec<u8>> {
            std::thread::spawn(move || {
                let mut v = Vec::new();
                let mut buf = [0u8; 65536];
                loop {
                    match r.read(&mut buf) {
                        Ok(0) | Err(_) => break,
                        Ok(n) => {
                            if v.len() < OUTPUT_CAP {
                                v.extend_from_slice(&buf[..n]);
                            } else {
                                flooded.store(true, Ordering::SeqCst); // keep draining so the child is not blocked
                            }
                        }
                    }
                }
                v
            })
        }
        let t1 = capture(so, flooded.clone());
        let t2 = capture(se, flooded.clone());
        let timeout_s = if KILLED.load(Ordering::Relaxed) >= 2 { timeout_s.min(5) } else { timeout_s };
        let start = Instant::now();
        let mut timed_out = false;
        let status = loop {
            match child.try_wait().expect("wait") {
                Some(s) => break s,
                None => {
                    if start.elapsed() > Duration::from_secs(timeout_s) || flooded.load(Ordering::SeqCst) {
                        KILLED.fetch_add(1, Ordering::Relaxed);
                        let _ = child.kill();
                        timed_out = true;
                        break child.wait().expect("wait");
                    }
                    std::thread::sleep(Duration::from_micros(300));
                }
            }
        };
        let stdout = t1.join().unwrap_or_default();
        let stderr = t2.join().unwrap_or_default();
        let _ = feeder.join();
        use std::os::unix::process::ExitStatusExt;
        let code = match status.code() {
            Some(c) => c,
            None => 1000 + status.signal().unwrap_or(0),
        };
        Run { status: code, stdout, stderr, timed_out }
    }

    pub fn write(&self, name: &str, bytes: &[u8]) -> PathBuf {
        let p = self.cwd.join(name);
        if let Some(parent) = p.parent() {
            let _ = std::fs::create_dir_all(parent);
        }
        std::fs::write(&p, bytes).expect("write scratch file");
        p
    }
}

/// The part of `lace run`'s stdout that the program itself printed: everything after the
/// "Running emitted binary" line, up to the trailing "Completed target" line. HALT's own banner
/// (`\n      Halted\n`) is kept: it is part of what a run prints.
pub fn program_output(stdout: &str) -> Option<String> {
    let marker = "Running emitted binary\n";
    let start = stdout.find(marker)? + marker.len();
    let rest = &stdout[start..];
    let end = rest.rfind("   Completed target").unwrap_or(rest.len());
    Some(rest[..end].to_string())
}

pub fn be_bytes(words: &[u16]) -> Vec<u8> {
    words.iter().flat_map(|w| w.to_be_bytes()).collect()
}
