//! Running lace code in isolation: fresh OS thread per case (fresh thread-locals), panics and typed
//! stops caught and classified, parallel drivers.

use std::cell::RefCell;
use std::panic::{catch_unwind, AssertUnwindSafe};
use std::sync::atomic::{AtomicUsize, Ordering};

pub use lace::verif::Stop;

#[derive(Debug, Clone, PartialEq, Eq)]
pub enum Stopped {
    Panic { msg: String, loc: String },
    Stop(Stop),
}

impl Stopped {
    pub fn short(&self) -> String {
        match self {
            Stopped::Panic { msg, loc } => format!("panic at {loc}: {msg}"),
            Stopped::Stop(s) => format!("{s:?}"),
        }
    }
    pub fn is_panic(&self) -> bool {
        matches!(self, Stopped::Panic { .. })
    }
    /// File and line of a panic, without column: stable signature component.
    pub fn panic_site(&self) -> String {
        match self {
            Stopped::Panic { loc, .. } => {
                let mut parts = loc.rsplitn(2, ':');
                let _col = parts.next();
                parts.next().unwrap_or(loc).to_string()
            }
            Stopped::Stop(s) => format!("{s:?}"),
        }
    }
}

thread_local! {
    static LAST_PANIC: RefCell<Option<(String, String)>> = const { RefCell::new(None) };
}

pub static REPORT_FD: std::sync::atomic::AtomicIsize = std::sync::atomic::AtomicIsize::new(-1);

thread_local! {
    static IN_GUARD: std::cell::Cell<bool> = const { std::cell::Cell::new(false) };
}

pub fn install_panic_hook() {
    std::panic::set_hook(Box::new(|info| {
        let msg = if let Some(s) = info.payload().downcast_ref::<&str>() {
            s.to_string()
        } else if let Some(s) = info.payload().downcast_ref::<String>() {
            s.clone()
        } else if let Some(s) = info.payload().downcast_ref::<Stop>() {
            format!("{s:?}")
        } else {
            "<non-string payload>".to_string()
        };
        let loc = info
            .location()
            .map(|l| format!("{}:{}:{}", l.file(), l.line(), l.column()))
            .unwrap_or_default();
        if std::thread::current().name() == Some("main") && !IN_GUARD.with(|g| g.get()) {
            // a bug in the harness itself: make it visible on the real stdout
            let fd = REPORT_FD.load(Ordering::Relaxed);
            if fd >= 0 {
                let line = format!("MACHINERY ERROR: harness panicked at {loc}: {msg}\n");
                unsafe { libc::write(fd as i32, line.as_ptr() as *const libc::c_void, line.len()) };
            }
        }
        LAST_PANIC.with(|l| *l.borrow_mut() = Some((msg, loc)));
    }));
}

/// Run `f`, converting an unwind into a classified [`Stopped`].
pub fn guard<T>(f: impl FnOnce() -> T) -> Result<T, Stopped> {
    let was = IN_GUARD.with(|g| g.replace(true));
    let r = catch_unwind(AssertUnwindSafe(f));
    IN_GUARD.with(|g| g.set(was));
    match r {
        Ok(v) => Ok(v),
        Err(payload) => {
            if let Some(stop) = payload.downcast_ref::<Stop>() {
                return Err(Stopped::Stop(*stop));
            }
            let (msg, loc) = LAST_PANIC
                .with(|l| l.borrow_mut().take())
                .unwrap_or_else(|| ("<unknown>".into(), String::new()));
            // Strip the absolute prefix of the repository so signatures are stable
            let loc = loc.replace("/repo/", "");
            Err(Stopped::Panic { msg, loc })
        }
    }
}

/// Per-thread settings applied before a case runs (what `main.rs` does before dispatching).
#[derive(Debug, Clone, Copy, PartialEq, Eq, Hash)]
pub struct Env {
    pub stack: bool,
    pub minimal: bool,
    /// `false` leaves the features uninitialised (what `lace check` does).
    pub init_features: bool,
}

impl Env {
    pub const fn new(stack: bool) -> Env {
        Env {
            stack,
            minimal: true,
            init_features: true,
        }
    }
}

/// Run one case on a fresh OS thread, armed (exits and fuel unwind, output is teed).
pub fn fresh<T: Send>(env: Env, f: impl FnOnce() -> T + Send) -> Result<T, Stopped> {
    std::thread::scope(|s| {
        let handle = std::thread::Builder::new()
            .stack_size(8 << 20)
            .spawn_scoped(s, move || {
                guard(move || {
                    if env.init_features {
                        let features: lace::features::Features =
                            if env.stack { "stack" } else { "" }.parse().unwrap();
                        lace::features::init(features);
                    }
                    lace::set_minimal(env.minimal);
                    lace::verif::arm(None);
                    f()
                })
            })
            .expect("spawn case thread");
        match handle.join() {
            Ok(r) => r,
            Err(_) => Err(Stopped::Panic {
                msg: "case thread died outside guard".into(),
                loc: String::new(),
            }),
        }
    })
}

thread_local! {
    /// Set on pool workers: the lace settings this thread was initialised with.
    static POOL_ENV: std::cell::Cell<Option<(bool, bool)>> = const { std::cell::Cell::new(None) };
    static FORCE_FRESH: std::cell::Cell<bool> = const { std::cell::Cell::new(false) };
}

/// Run one case with lace's thread-local state as a new process would have it.
///
/// Spawning an OS thread per case does not scale on this machine (thread creation serialises
/// across cores), so pool workers run cases *in place* after the documented state reset
/// (`reset_state()`, re-arming the hooks). Because that reset is itself the subject of a property
/// (C19), nothing is ever reported from an in-place run: callers re-run any disagreeing case
/// under [`confirm_fresh`], where this function spawns a fresh thread, and only that verdict counts.
pub fn case<T: Send>(env: Env, f: impl FnOnce() -> T + Send) -> Result<T, Stopped> {
    let pooled = POOL_ENV.with(|p| p.get());
    if !FORCE_FRESH.with(|f| f.get()) && pooled == Some((env.stack, env.init_features)) {
        lace::reset_state();
        lace::set_minimal(env.minimal);
        lace::verif::arm(None);
        guard(f)
    } else {
        fresh(env, f)
    }
}

/// Run `f` with every [`case`] inside it on a fresh OS thread.
pub fn confirm_fresh<T>(f: impl FnOnce() -> T) -> T {
    let old = FORCE_FRESH.with(|c| c.replace(true));
    let r = f();
    FORCE_FRESH.with(|c| c.set(old));
    r
}

pub fn in_pool() -> bool {
    POOL_ENV.with(|p| p.get()).is_some() && !FORCE_FRESH.with(|f| f.get())
}

pub fn threads() -> usize {
    std::env::var("VERIF_THREADS")
        .ok()
        .and_then(|v| v.parse().ok())
        .unwrap_or_else(|| {
            std::thread::available_parallelism()
                .map(|n| n.get())
                .unwrap_or(4)
        })
}

/// Values that travel from a worker process back to the parent.
pub trait Wire: Sized {
    fn to_value(&self) -> serde_json::Value;
    fn from_value(v: &serde_json::Value) -> Self;
}

/// Parallel fold over `0..n`: each worker owns an accumulator, chunks are claimed dynamically.
/// The merge order is by worker id, and accumulators must be order-insensitive (counts, sets,
/// violation lists that are sorted afterwards).
pub fn par_fold<A: Wire>(
    n: usize,
    chunk: usize,
    init: impl Fn() -> A + Sync,
    body: impl Fn(&mut A, usize) + Sync,
) -> Vec<A> {
    pooled(None, n, chunk, init, body)
}

/// [`par_fold`] over the indices selected by `flag_of(i) == stack`, once per flag value, on
/// workers initialised for that flag.
pub fn pooled_by_flag<A: Wire>(
    n: usize,
    chunk: usize,
    flag_of: impl Fn(usize) -> bool + Sync,
    init: impl Fn() -> A + Sync,
    body: impl Fn(&mut A, usize) + Sync,
) -> Vec<A> {
    let mut out = Vec::new();
    for flag in [false, true] {
        let idx: Vec<usize> = (0..n).filter(|i| flag_of(*i) == flag).collect();
        if idx.is_empty() {
            continue;
        }
        out.extend(pooled(Some(Env::new(flag)), idx.len(), chunk, &init, |acc, k| body(acc, idx[k])));
    }
    out
}

static PART_COUNTER: AtomicUsize = AtomicUsize::new(0);

/// Seconds a single case may take before its worker is killed (0 = no limit). Set by checks whose
/// subject can loop forever without passing a fuel tick (the assembler).
pub static CASE_ALARM_S: AtomicUsize = AtomicUsize::new(0);

/// Watchdog per case: the check's own setting, else 90 s (no case of any check needs more than a
/// few seconds; subprocesses have their own 60 s limit).
fn case_alarm() -> u32 {
    match CASE_ALARM_S.load(Ordering::Relaxed) as u32 {
        0 => 90,
        s => s,
    }
}

/// Address-space headroom of a worker in GiB (3 in the quick tier, 12 in the thorough tier).
pub static HEADROOM_GIB: AtomicUsize = AtomicUsize::new(3);

/// A worker may grow by [`HEADROOM_GIB`] beyond what it inherited: a runaway allocation in the code under
/// test then aborts this worker (reported as a death at that case) instead of exhausting the host.
fn limit_address_space() {
    let vm_kib: u64 = std::fs::read_to_string("/proc/self/status")
        .ok()
        .and_then(|s| s.lines().find(|l| l.starts_with("VmSize:")).and_then(|l| l.split_whitespace().nth(1).and_then(|v| v.parse().ok())))
        .unwrap_or(4 << 20);
    let lim = (vm_kib << 10) + ((HEADROOM_GIB.load(Ordering::Relaxed) as u64) << 30);
    let rl = libc::rlimit { rlim_cur: lim, rlim_max: lim };
    unsafe { libc::setrlimit(libc::RLIMIT_AS, &rl) };
}

/// What happened to a worker process that did not finish.
#[derive(Debug, Clone)]
pub struct WorkerDeath {
    pub index: usize,
    pub status: String,
}

thread_local! {
    pub static DEATHS: RefCell<Vec<WorkerDeath>> = const { RefCell::new(Vec::new()) };
}

/// Like [`par_fold`]; with `Some(env)` every worker initialises lace for `env` once and serves
/// [`case`] calls for that environment in place.
///
/// Workers are forked *processes*, not threads: lace serialises on process-wide locks (stderr,
/// the allocator's mmap paths, thread creation), which made 16 threads slower than one. Each worker
/// inherits the parent's memory (so the work list needs no serialisation), claims chunks of
/// indices from a counter in shared memory, and writes its accumulator to a file in the scratch
/// directory when done. Must be called from the main thread while no other thread is running.
pub fn pooled<A: Wire>(
    env: Option<Env>,
    n: usize,
    chunk: usize,
    init: impl Fn() -> A + Sync,
    body: impl Fn(&mut A, usize) + Sync,
) -> Vec<A> {
    let chunk = chunk.max(1);
    let nproc = threads().min(n.div_ceil(chunk)).max(1);
    let dir = std::path::PathBuf::from(std::env::var("LACEMC_SCRATCH").unwrap_or_else(|_| "/verif/target/scratch".into()));
    let _ = std::fs::create_dir_all(&dir);
    let run_id = PART_COUNTER.fetch_add(1, Ordering::Relaxed);
    // shared: [next, current[0..nproc]]
    let words = 1 + nproc;
    let shared = unsafe {
        libc::mmap(
            std::ptr::null_mut(),
            words * 8,
            libc::PROT_READ | libc::PROT_WRITE,
            libc::MAP_SHARED | libc::MAP_ANONYMOUS,
            -1,
            0,
        )
    };
    assert!(shared != libc::MAP_FAILED, "mmap shared counter");
    let slots: &[AtomicUsize] = unsafe { std::slice::from_raw_parts(shared as *const AtomicUsize, words) };
    slots[0].store(0, Ordering::SeqCst);
    for k in 0..nproc {
        slots[1 + k].store(usize::MAX, Ordering::SeqCst);
    }
    let parent_pid = std::process::id();
    let part = |k: usize| dir.join(format!("part-{}-{}-{}.json", parent_pid, run_id, k));
    let mut pids = Vec::new();
    for k in 0..nproc {
        let pid = unsafe { libc::fork() };
        assert!(pid >= 0, "fork failed");
        if pid == 0 {
            // ---- worker process ----
            let result = guard(|| {
                if let Some(env) = env {
                    if env.init_features {
                        let features: lace::features::Features =
                            if env.stack { "stack" } else { "" }.parse().unwrap();
                        lace::features::init(features);
                    }
                    POOL_ENV.with(|p| p.set(Some((env.stack, env.init_features))));
                }
                let alarm = case_alarm();
                limit_address_space();
                let mut acc = init();
                loop {
                    let start = slots[0].fetch_add(chunk, Ordering::SeqCst);
                    if start >= n {
                        break;
                    }
                    let end = (start + chunk).min(n);
                    for i in start..end {
                        slots[1 + k].store(i, Ordering::SeqCst);
                        if alarm > 0 {
                            unsafe { libc::alarm(alarm) };
                        }
                        body(&mut acc, i);
                    }
                }
                if alarm > 0 {
                    unsafe { libc::alarm(0) };
                }
                slots[1 + k].store(usize::MAX, Ordering::SeqCst);
                acc
            });
            let code = match result {
                Ok(acc) => {
                    let text = serde_json::to_vec(&acc.to_value()).unwrap();
                    match std::fs::write(part(k), text) {
                        Ok(()) => 0,
                        Err(_) => 3,
                    }
                }
                Err(stopped) => {
                    let _ = std::fs::write(part(k).with_extension("err"), stopped.short());
                    4
                }
            };
            unsafe { libc::_exit(code) };
        }
        pids.push(pid);
    }
    let mut out = Vec::new();
    let mut machinery: Vec<String> = Vec::new();
    for (k, pid) in pids.iter().enumerate() {
        let mut status: libc::c_int = 0;
        let r = unsafe { libc::waitpid(*pid, &mut status, 0) };
        let ok = r == *pid && libc::WIFEXITED(status) && libc::WEXITSTATUS(status) == 0;
        if ok {
            let text = std::fs::read(part(k)).expect("read worker result");
            let v: serde_json::Value = serde_json::from_slice(&text).expect("parse worker result");
            out.push(A::from_value(&v));
        } else {
            let at = slots[1 + k].load(Ordering::SeqCst);
            let what = if libc::WIFSIGNALED(status) {
                format!("signal {}", libc::WTERMSIG(status))
            } else {
                let extra = std::fs::read_to_string(part(k).with_extension("err")).unwrap_or_default();
                format!("exit {} {}", libc::WEXITSTATUS(status), extra)
            };
            // Is it the case or the machine? Run that one case again in a process of its own: if
            // it dies again, the code under test cannot finish that case (a hang caught by the
            // watchdog, an allocation abort, a stack overflow) and the check reports it as a
            // violation; if it survives, the death was ours and no verdict may be given.
            let confirmed = at != usize::MAX && {
                let pid = unsafe { libc::fork() };
                assert!(pid >= 0, "fork failed");
                if pid == 0 {
                    let r = guard(|| {
                        if let Some(env) = env {
                            if env.init_features {
                                let features: lace::features::Features = if env.stack { "stack" } else { "" }.parse().unwrap();
                                lace::features::init(features);
                            }
                            POOL_ENV.with(|p| p.set(Some((env.stack, env.init_features))));
                        }
                        limit_address_space();
                        unsafe { libc::alarm(case_alarm()) };
                        let mut acc = init();
                        body(&mut acc, at);
                    });
                    unsafe { libc::_exit(if r.is_ok() { 0 } else { 4 }) };
                }
                let mut st: libc::c_int = 0;
                let r = unsafe { libc::waitpid(pid, &mut st, 0) };
                !(r == pid && libc::WIFEXITED(st) && libc::WEXITSTATUS(st) == 0)
            };
            if confirmed {
                DEATHS.with(|d| d.borrow_mut().push(WorkerDeath { index: at, status: what.clone() }));
            } else {
                machinery.push(format!("worker {k} died ({what}) at index {at}; the case alone did not reproduce it"));
            }
        }
        let _ = std::fs::remove_file(part(k));
        let _ = std::fs::remove_file(part(k).with_extension("err"));
    }
    unsafe { libc::munmap(shared, words * 8) };
    if !machinery.is_empty() {
        MACHINERY_ERRORS.with(|m| m.borrow_mut().extend(machinery));
    }
    out
}

thread_local! {
    /// Worker deaths seen by this (parent) thread; a check that finds this non-empty at the end
    /// must not claim a verdict.
    pub static MACHINERY_ERRORS: RefCell<Vec<String>> = const { RefCell::new(Vec::new()) };
}

pub fn take_machinery_errors() -> Vec<String> {
    MACHINERY_ERRORS.with(|m| std::mem::take(&mut *m.borrow_mut()))
}

pub fn take_deaths() -> Vec<WorkerDeath> {
    DEATHS.with(|m| std::mem::take(&mut *m.borrow_mut()))
}

