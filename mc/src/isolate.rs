//! Running lace code in isolation: fresh OS thread per case (fresh thread-locals), panics and typed
//! stops caught and classified, parallel drivers.

use std::cell::RefCell;
use std::panic::{catch_unwind, AssertUnwindSafe};
use std::sync::atomic::{AtomicUsize, Ordering};
use std::sync::Mutex;

pub use lace::verif::Stop;

#[derive(Debug, Clone, PartialEq, Eq)]
pub enum Stopped {
    Panic { msg: String, loc: String },
    Stop(Stop),
}

impl Stopped {
    pub fn short(&self) -> String {
        match self {
            Stopped::Panic { msg, loc } => format!("panic at {loc}: {msg}"),
            Stopped::Stop(s) => format!("{s:?}"),
        }
    }
    pub fn is_panic(&self) -> bool {
        matches!(self, Stopped::Panic { .. })
    }
    /// File and line of a panic, without column: stable signature component.
    pub fn panic_site(&self) -> String {
        match self {
            Stopped::Panic { loc, .. } => {
                let mut parts = loc.rsplitn(2, ':');
                let _col = parts.next();
                parts.next().unwrap_or(loc).to_string()
            }
            Stopped::Stop(s) => format!("{s:?}"),
        }
    }
}

thread_local! {
    static LAST_PANIC: RefCell<Option<(String, String)>> = const { RefCell::new(None) };
}

pub fn install_panic_hook() {
    std::panic::set_hook(Box::new(|info| {
        let msg = if let Some(s) = info.payload().downcast_ref::<&str>() {
            s.to_string()
        } else if let Some(s) = info.payload().downcast_ref::<String>() {
            s.clone()
        } else if let Some(s) = info.payload().downcast_ref::<Stop>() {
            format!("{s:?}")
        } else {
            "<non-string payload>".to_string()
        };
        let loc = info
            .location()
            .map(|l| format!("{}:{}:{}", l.file(), l.line(), l.column()))
            .unwrap_or_default();
        LAST_PANIC.with(|l| *l.borrow_mut() = Some((msg, loc)));
    }));
}

/// Run `f`, converting an unwind into a classified [`Stopped`].
pub fn guard<T>(f: impl FnOnce() -> T) -> Result<T, Stopped> {
    match catch_unwind(AssertUnwindSafe(f)) {
        Ok(v) => Ok(v),
        Err(payload) => {
            if let Some(stop) = payload.downcast_ref::<Stop>() {
                return Err(Stopped::Stop(*stop));
            }
            let (msg, loc) = LAST_PANIC
                .with(|l| l.borrow_mut().take())
                .unwrap_or_else(|| ("<unknown>".into(), String::new()));
            // Strip the absolute prefix of the repository so signatures are stable
            let loc = loc.replace("/repo/", "");
            Err(Stopped::Panic { msg, loc })
        }
    }
}

/// Per-thread settings applied before a case runs (what `main.rs` does before dispatching).
#[derive(Debug, Clone, Copy, PartialEq, Eq, Hash)]
pub struct Env {
    pub stack: bool,
    pub minimal: bool,
    /// `false` leaves the features uninitialised (what `lace check` does).
    pub init_features: bool,
}

impl Env {
    pub const fn new(stack: bool) -> Env {
        Env {
            stack,
            minimal: true,
            init_features: true,
        }
    }
}

/// Run one case on a fresh OS thread, armed (exits and fuel unwind, output is teed).
pub fn fresh<T: Send>(env: Env, f: impl FnOnce() -> T + Send) -> Result<T, Stopped> {
    std::thread::scope(|s| {
        let handle = std::thread::Builder::new()
            .stack_size(8 << 20)
            .spawn_scoped(s, move || {
                guard(move || {
                    if env.init_features {
                        let features: lace::features::Features =
                            if env.stack { "stack" } else { "" }.parse().unwrap();
                        lace::features::init(features);
                    }
                    lace::set_minimal(env.minimal);
                    lace::verif::arm(None);
                    f()
                })
            })
            .expect("spawn case thread");
        match handle.join() {
            Ok(r) => r,
            Err(_) => Err(Stopped::Panic {
                msg: "case thread died outside guard".into(),
                loc: String::new(),
            }),
        }
    })
}

thread_local! {
    /// Set on pool workers: the lace settings this thread was initialised with.
    static POOL_ENV: std::cell::Cell<Option<(bool, bool)>> = const { std::cell::Cell::new(None) };
    static FORCE_FRESH: std::cell::Cell<bool> = const { std::cell::Cell::new(false) };
}

/// Run one case with lace's thread-local state as a new process would have it.
///
/// Spawning an OS thread per case does not scale on this machine (thread creation serialises
/// across cores), so pool workers run cases *in place* after the documented state reset
/// (`reset_state()`, re-arming the hooks). Because that reset is itself the subject of a property
/// (C19), nothing is ever reported from an in-place run: callers re-run any disagreeing case
/// under [`confirm_fresh`], where this function spawns a fresh thread, and only that verdict counts.
pub fn case<T: Send>(env: Env, f: impl FnOnce() -> T + Send) -> Result<T, Stopped> {
    let pooled = POOL_ENV.with(|p| p.get());
    if !FORCE_FRESH.with(|f| f.get()) && pooled == Some((env.stack, env.init_features)) {
        lace::reset_state();
        lace::set_minimal(env.minimal);
        lace::verif::arm(None);
        guard(f)
    } else {
        fresh(env, f)
    }
}

/// Run `f` with every [`case`] inside it on a fresh OS thread.
pub fn confirm_fresh<T>(f: impl FnOnce() -> T) -> T {
    let old = FORCE_FRESH.with(|c| c.replace(true));
    let r = f();
    FORCE_FRESH.with(|c| c.set(old));
    r
}

pub fn in_pool() -> bool {
    POOL_ENV.with(|p| p.get()).is_some() && !FORCE_FRESH.with(|f| f.get())
}

pub fn threads() -> usize {
    std::env::var("VERIF_THREADS")
        .ok()
        .and_then(|v| v.parse().ok())
        .unwrap_or_else(|| {
            std::thread::available_parallelism()
                .map(|n| n.get())
                .unwrap_or(4)
        })
}

/// Parallel fold over `0..n`: each worker owns an accumulator, chunks are claimed dynamically.
/// The merge order is by worker id, and accumulators must be order-insensitive (counts, sets,
/// violation lists that are sorted afterwards).
pub fn par_fold<A: Send>(
    n: usize,
    chunk: usize,
    init: impl Fn() -> A + Sync,
    body: impl Fn(&mut A, usize) + Sync,
) -> Vec<A> {
    pooled(None, n, chunk, init, body)
}

/// [`par_fold`] over the indices selected by `flag_of(i) == stack`, once per flag value, on
/// workers initialised for that flag.
pub fn pooled_by_flag<A: Send>(
    n: usize,
    chunk: usize,
    flag_of: impl Fn(usize) -> bool + Sync,
    init: impl Fn() -> A + Sync,
    body: impl Fn(&mut A, usize) + Sync,
) -> Vec<A> {
    let mut out = Vec::new();
    for flag in [false, true] {
        let idx: Vec<usize> = (0..n).filter(|i| flag_of(*i) == flag).collect();
        if idx.is_empty() {
            continue;
        }
        out.extend(pooled(Some(Env::new(flag)), idx.len(), chunk, &init, |acc, k| body(acc, idx[k])));
    }
    out
}

/// Like [`par_fold`]; with `Some(env)` every worker initialises lace for `env` once and serves
/// [`case`] calls for that environment in place.
pub fn pooled<A: Send>(
    env: Option<Env>,
    n: usize,
    chunk: usize,
    init: impl Fn() -> A + Sync,
    body: impl Fn(&mut A, usize) + Sync,
) -> Vec<A> {
    let next = AtomicUsize::new(0);
    let nthreads = threads().min(n.max(1));
    let results: Mutex<Vec<(usize, A)>> = Mutex::new(Vec::new());
    std::thread::scope(|s| {
        for w in 0..nthreads {
            let next = &next;
            let init = &init;
            let body = &body;
            let results = &results;
            std::thread::Builder::new()
                .stack_size(16 << 20)
                .spawn_scoped(s, move || {
                    if let Some(env) = env {
                        if env.init_features {
                            let features: lace::features::Features =
                                if env.stack { "stack" } else { "" }.parse().unwrap();
                            lace::features::init(features);
                        }
                        POOL_ENV.with(|p| p.set(Some((env.stack, env.init_features))));
                    }
                    let mut acc = init();
                    loop {
                        let start = next.fetch_add(chunk, Ordering::Relaxed);
                        if start >= n {
                            break;
                        }
                        let end = (start + chunk).min(n);
                        for i in start..end {
                            body(&mut acc, i);
                        }
                    }
                    results.lock().unwrap().push((w, acc));
                })
                .expect("spawn worker");
        }
    });
    let mut v = results.into_inner().unwrap();
    v.sort_by_key(|(w, _)| *w);
    v.into_iter().map(|(_, a)| a).collect()
}

/// Parallel map preserving order.
pub fn par_map<R: Send>(n: usize, f: impl Fn(usize) -> R + Sync) -> Vec<R> {
    let parts = par_fold(
        n,
        1,
        Vec::new,
        |acc: &mut Vec<(usize, R)>, i| acc.push((i, f(i))),
    );
    let mut all: Vec<(usize, R)> = parts.into_iter().flatten().collect();
    all.sort_by_key(|(i, _)| *i);
    all.into_iter().map(|(_, r)| r).collect()
}
